#!/usr/bin/env bash
# usage: seed_regress.sh [seed ids...] — regression test of the machinery itself on the corpus built by
# seed_corpus.sh: every stored replay file must NOT reproduce on the unchanged tree (exit 0) and must reproduce
# (exit 1) with the seeded change applied. Prints one line per seed and a summary; exit 1 if anything is off.
cd /verif
ids="${@:-$(ls seeded)}"
(cd /verif/sim && CARGO_NET_OFFLINE=true cargo build --release --offline >/dev/null 2>&1) || { echo "build failed"; exit 2; }
bad=0
# 1. unchanged tree: nothing reproduces
for id in $ids; do
  for f in $(ls /verif/seeded/$id/replays/*.json 2>/dev/null); do
    VERIF_ROOT=/tmp/regress_root /verif/.build/release/nutsim replay $f >/dev/null 2>&1; c=$?
    if [ $c -ne 0 ]; then echo "FALSE-ALARM $id $(basename $f): replay exits $c on the unchanged tree"; bad=1; fi
  done
done
echo "unchanged tree: done"
# 2. with the change applied: every seed has at least one replay that reproduces
for id in $ids; do
  fs=$(ls /verif/seeded/$id/replays/*.json 2>/dev/null)
  [ -z "$fs" ] && { echo "NO-CORPUS $id"; continue; }
  git -C /repo apply /verif/seeded/$id/patch.diff || { echo "$id: patch does not apply"; bad=1; continue; }
  (cd /verif/sim && CARGO_NET_OFFLINE=true cargo build --release --offline >/dev/null 2>&1) || { echo "$id: build failed"; git -C /repo checkout -- .; bad=1; continue; }
  hit=0; tot=0
  for f in $fs; do
    tot=$((tot+1))
    # (a few attempts: C10-b is detected through real threads of rayon's global pool, see DESIGN 0.3)
    for attempt in 1 2 3 4 5; do
      VERIF_ROOT=/tmp/regress_root /verif/.build/release/nutsim replay $f >/dev/null 2>&1
      if [ $? -eq 1 ]; then hit=$((hit+1)); break; fi
      [ "$id" != "C10-b" ] && break
    done
  done
  git -C /repo checkout -- .
  if [ $hit -eq 0 ]; then echo "MISSED $id: none of $tot replay file(s) reproduces with the change applied"; bad=1; else echo "ok $id: $hit/$tot replay file(s) reproduce"; fi
done
(cd /verif/sim && CARGO_NET_OFFLINE=true cargo build --release --offline >/dev/null 2>&1)
rm -rf /tmp/regress_root
exit $bad
