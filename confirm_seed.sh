#!/usr/bin/env bash
# usage: confirm_seed.sh <worktree dir> <seed id> [detected-by text]
# Confirms a seeded change: existing tests pass with it, the demo fails with it and passes without it.
# On success stores it as /verif/seeded/<id>/ and removes the worktree.
set -u
wt="$1"; id="$2"; detected="${3:-}"
cd "$wt" || exit 2
export CARGO_NET_OFFLINE=true
meta="_seeded/meta.json"
demo_cmd=$(python3 -c "import json;print(json.load(open('$meta'))['demo_cmd'])")
demo_cmd=$(echo "$demo_cmd" | sed -E "s#cd +$wt +&& +##" | sed -E 's/ {2,}[(#].*$//')
# the saved patch is the authority: reset the tracked files and apply it (worktrees share one git stash, and
# agents have swapped their changes through it)
git checkout -- . && git apply _seeded/patch.diff || { echo "$id: patch.diff does not apply to HEAD"; exit 2; }
feat=""
grep -q "storage" _seeded/patch.diff && feat="--features zarr,arrow,ndarray"
demos=$(git ls-files --others --exclude-standard tests/ examples/ | tr '\n' ' ')
log="_seeded/confirm.log"; : > $log
mkdir -p /tmp/demo_aside_$id
for d in $demos; do mv "$d" /tmp/demo_aside_$id/; done
echo "== existing tests with patch" >> $log
if cargo test --workspace --offline $feat >> $log 2>&1; then t1=pass; else t1=FAIL; fi
for d in $demos; do mv /tmp/demo_aside_$id/$(basename $d) "$d"; done
echo "== demo with patch: $demo_cmd" >> $log
if bash -c "$demo_cmd" >> $log 2>&1; then d1=pass; else d1=fail; fi
git apply -R _seeded/patch.diff || { echo "cannot revert"; exit 2; }
echo "== demo without patch" >> $log
if bash -c "$demo_cmd" >> $log 2>&1; then d0=pass; else d0=fail; fi
git apply _seeded/patch.diff
echo "$id: existing_tests_with_patch=$t1 demo_with_patch=$d1 demo_without_patch=$d0"
if [ "$t1" == pass ] && [ "$d1" == fail ] && [ "$d0" == pass ]; then
  mkdir -p /verif/seeded/$id
  cp _seeded/patch.diff /verif/seeded/$id/patch.diff
  for d in $demos; do cp "$d" /verif/seeded/$id/; done
  python3 - "$meta" "$id" "$detected" "$demo_cmd" <<'PY'
import json,sys
m=json.load(open(sys.argv[1]))
m['confirmed']={'existing_tests_with_patch':'pass (cargo test --workspace --offline)','demo_with_patch':'fails','demo_without_patch':'passes','demo_cmd':sys.argv[4]}
if sys.argv[3]: m['detected_by']=sys.argv[3]
json.dump(m,open(f'/verif/seeded/{sys.argv[2]}/meta.json','w'),indent=1)
PY
  cd / && git -C /repo worktree remove --force "$wt" && echo "$id: kept, worktree removed"
else
  echo "$id: NOT confirmed, see $wt/$log"
fi
rm -rf /tmp/demo_aside_$id
