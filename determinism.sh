#!/usr/bin/env bash
# usage: determinism.sh [props...] — runs every check twice in separate processes with different worker
# counts (16 and 3) and a private scratch root each, and compares the batch digests of the evidence files
# (the digest folds the event-log digest of every run in index order). Prints DIFF lines for mismatches.
props="${@:-C01 C02 C03 C04 C05 C06 C07 C08 C09 C10 C11 C12 C13 C14 C15 C16 C18}"
snap=/tmp/nutsim_det_$$; cp /verif/.build/release/nutsim "$snap"
bad=0
for p in $props; do
  d=""
  for w in 16 3; do
    root=/tmp/det_root_${w}_$$; mkdir -p "$root"; cp /verif/known_findings.jsonl "$root"/
    VERIF_WORKERS=$w VERIF_ROOT=$root "$snap" check "$p" >/dev/null 2>&1
    d="$d $(python3 -c "import json;print(json.load(open('$root/evidence/$p.json'))['coverage']['batch_digest'])")"
    rm -rf "$root"
  done
  set -- $d
  if [ "$1" == "$2" ]; then echo "same $p $1"; else echo "DIFF $p $1 $2"; bad=1; fi
done
rm -f "$snap"
exit $bad
