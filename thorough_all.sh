#!/usr/bin/env bash
# usage: thorough_all.sh [props...] — runs the thorough tier of every check from a private copy of the built
# binary into a scratch root, prints one line per property and copies the evidence files to
# /verif/evidence_thorough/ (the files under /verif/evidence/ are those of the last ./check run).
props="${@:-C01 C02 C03 C04 C05 C06 C07 C08 C09 C10 C11 C12 C13 C14 C15 C16 C18}"
(cd /verif/sim && CARGO_NET_OFFLINE=true cargo build --release --offline >/dev/null 2>&1) || { echo "build failed"; exit 2; }
snap=/tmp/nutsim_thorough_$$; cp /verif/.build/release/nutsim $snap
root=/tmp/thorough_root_$$; mkdir -p $root; cp /verif/known_findings.jsonl $root/
mkdir -p /verif/evidence_thorough
for p in $props; do
  s=$(date +%s)
  out=$(VERIF_ROOT=$root $snap check $p --tier thorough 2>&1); code=$?
  e=$(date +%s)
  echo "$p exit=$code wall=$((e-s))s $(echo "$out" | grep -E "thorough:" | tail -1)"
  if [ $code -ne 0 ]; then echo "$out" | grep -E "key:|detail:|HARNESS" | cut -c1-400 | head -12; mkdir -p /verif/evidence_thorough/replays; cp -r $root/replays/$p /verif/evidence_thorough/replays/ 2>/dev/null; fi
  cp $root/evidence/$p.json /verif/evidence_thorough/$p.json 2>/dev/null
done
rm -f $snap; rm -rf $root
