#!/usr/bin/env bash
# usage: seed_corpus.sh [seed ids...] — for every seeded change: apply it to /repo, run the checks named in its
# meta.json ("detected_by"), copy the (minimised) replay files of the violations found into
# /verif/seeded/<id>/replays/, undo the change. The corpus is then used by seed_regress.sh.
cd /verif
ids="${@:-$(ls seeded)}"
for id in $ids; do
  d=/verif/seeded/$id
  props=$(python3 -c "
import json,re
m=json.load(open('$d/meta.json'))
s=m.get('detected_by','') or ''
ps=[]
for p in re.findall(r'C\d\d', s):
    if p not in ps: ps.append(p)
# the part before 'not by' / 'NOT by' counts
cut=re.split(r'[Nn][Oo][Tt] by|not C1', s)[0]
ps2=[]
for p in re.findall(r'C\d\d', cut):
    if p not in ps2: ps2.append(p)
print(' '.join((ps2 or ps)[:2]) or '$id'.split('-')[0])")
  git -C /repo apply $d/patch.diff || { echo "$id: patch does not apply"; continue; }
  rm -rf /tmp/corpus_root; mkdir -p /tmp/corpus_root; cp /verif/known_findings.jsonl /tmp/corpus_root/
  mkdir -p $d/replays; n=0
  for p in $props; do
    (cd /verif/sim && CARGO_NET_OFFLINE=true cargo build --release --offline >/dev/null 2>&1) || { echo "$id: build failed"; break; }
    VERIF_ROOT=/tmp/corpus_root /verif/.build/release/nutsim check $p >/dev/null 2>&1
    for f in $(ls /tmp/corpus_root/replays/$p/*.json 2>/dev/null | head -2); do cp $f $d/replays/; n=$((n+1)); done
  done
  git -C /repo checkout -- .
  echo "$id: checks [$props] -> $n replay file(s)"
done
(cd /verif/sim && CARGO_NET_OFFLINE=true cargo build --release --offline >/dev/null 2>&1)
rm -rf /tmp/corpus_root
