//! C06 demo: after warmup the base step size must be constant and every later step size
//! must lie inside the configured jitter band around the final averaged step size, for
//! every chain that the library accepts -- including the degenerate ones where a draw
//! takes no leapfrog step at all (zero-dimensional model, or `maxdepth == 0`), so that
//! the acceptance statistic of the draw is undefined (0 / 0).
//!
//! Run with: cargo test --offline --test c06f_demo

use nuts_rs::{Chain, CpuLogpFunc, CpuMath, DiagNutsSettings, LogpError, Settings};
use nuts_storable::HasDims;
use rand::SeedableRng;
use thiserror::Error;

struct Normal {
    dim: usize,
}

#[derive(Error, Debug)]
enum NoError {}

impl LogpError for NoError {
    fn is_recoverable(&self) -> bool {
        true
    }
}

impl HasDims for Normal {
    fn dim_sizes(&self) -> std::collections::HashMap<String, u64> {
        std::collections::HashMap::from([(
            "unconstrained_parameter".to_string(),
            self.dim as u64,
        )])
    }
}

impl CpuLogpFunc for Normal {
    type LogpError = NoError;
    type FlowParameters = ();
    type ExpandedVector = Vec<f64>;

    fn dim(&self) -> usize {
        self.dim
    }

    fn logp(&mut self, position: &[f64], grad: &mut [f64]) -> Result<f64, Self::LogpError> {
        let mut logp = 0.0;
        for (p, g) in position.iter().zip(grad.iter_mut()) {
            *g = -p;
            logp -= 0.5 * p * p;
        }
        Ok(logp)
    }

    fn expand_vector<R>(
        &mut self,
        _rng: &mut R,
        array: &[f64],
    ) -> Result<Self::ExpandedVector, nuts_rs::CpuMathError>
    where
        R: rand::Rng + ?Sized,
    {
        Ok(array.to_vec())
    }
}

fn check_frozen_kernel(dim: usize, maxdepth: u64, num_tune: u64, num_draws: u64) {
    let mut settings = DiagNutsSettings::default();
    settings.num_tune = num_tune;
    settings.num_draws = num_draws;
    settings.maxdepth = maxdepth;
    let jitter = settings
        .adapt_options
        .step_size_settings
        .jitter
        .expect("default settings use jitter");

    let math = CpuMath::new(Normal { dim });
    let mut rng = rand::rngs::StdRng::seed_from_u64(1);
    let mut chain = settings.new_chain(0, math, &mut rng);
    chain.set_position(&vec![0.3; dim]).unwrap();

    let mut final_bar: Option<f64> = None;
    for draw in 0..(num_tune + num_draws) {
        let (_pos, _expanded, stats, progress) = chain
            .expanded_draw()
            .expect("any num_tune must give a working chain");
        assert_eq!(progress.draw, draw);
        assert_eq!(
            progress.tuning,
            draw < num_tune,
            "exactly the first num_tune draws are tuning (draw {draw})"
        );
        if draw + 1 < num_tune {
            continue;
        }
        // From the last tuning draw on, `progress.step_size` is the step size of a
        // post-warmup draw and `step_size_bar` is the final averaged step size.
        let bar = stats.adapt.step_size.step_size_bar;
        let step = progress.step_size;
        assert!(
            bar.is_finite() && bar > 0.0,
            "dim {dim} maxdepth {maxdepth}: final averaged step size is {bar} at draw {draw}"
        );
        let reference = *final_bar.get_or_insert(bar);
        assert!(
            (bar - reference).abs() <= 1e-12 * reference,
            "base step size changed after warmup: {reference} -> {bar} at draw {draw}"
        );
        assert!(
            step >= bar * (1.0 - jitter) * (1.0 - 1e-12)
                && step <= bar * (1.0 + jitter) * (1.0 + 1e-12),
            "dim {dim} maxdepth {maxdepth}: step size {step} at draw {draw} is outside the \
             jitter band [{}, {}] around the final step size {bar}",
            bar * (1.0 - jitter),
            bar * (1.0 + jitter),
        );
    }
}

/// Sanity: an ordinary model satisfies the property (passes with and without the change).
#[test]
fn ordinary_model_keeps_kernel_frozen() {
    check_frozen_kernel(3, 10, 60, 40);
}

/// A model without free parameters: no leapfrog step is ever taken.
#[test]
fn zero_dimensional_model_keeps_kernel_frozen() {
    check_frozen_kernel(0, 10, 30, 20);
}

/// `maxdepth == 0`: the tree is never extended, so again no leapfrog step is taken.
#[test]
fn zero_maxdepth_keeps_kernel_frozen() {
    check_frozen_kernel(3, 0, 30, 20);
}
