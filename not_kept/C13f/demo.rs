//! C13 demo: a chain whose model construction / initialisation fails must make the parallel
//! sampler report an `Err`, also for the boundary configuration of a run with zero draws
//! (`num_tune == 0 && num_draws == 0`).
//!
//! Run with: cargo test --offline --test c13_zero_draw_failures

use std::collections::HashMap;
use std::sync::atomic::{AtomicUsize, Ordering};
use std::time::Duration;

use anyhow::Result;
use nuts_rs::{
    CpuLogpFunc, CpuMath, CpuMathError, DiagNutsSettings, HashMapConfig, LogpError, Model, Sampler,
    SamplerWaitResult,
};
use nuts_storable::HasDims;
use rand::Rng;
use thiserror::Error;

#[derive(Debug, Error)]
enum DemoLogpError {
    #[error("the density is not defined at this point")]
    BadPoint,
}

impl LogpError for DemoLogpError {
    fn is_recoverable(&self) -> bool {
        true
    }
}

#[derive(Clone)]
struct Logp {
    /// Every evaluation of the density fails with a recoverable error: no starting point works.
    never_defined: bool,
}

impl HasDims for Logp {
    fn dim_sizes(&self) -> HashMap<String, u64> {
        HashMap::from([
            ("unconstrained_parameter".to_string(), 2),
            ("dim".to_string(), 2),
        ])
    }
}

impl CpuLogpFunc for Logp {
    type LogpError = DemoLogpError;
    type FlowParameters = ();
    type ExpandedVector = Vec<f64>;

    fn dim(&self) -> usize {
        2
    }

    fn logp(&mut self, x: &[f64], grad: &mut [f64]) -> Result<f64, Self::LogpError> {
        if self.never_defined {
            return Err(DemoLogpError::BadPoint);
        }
        let mut logp = 0.0;
        for (g, x) in grad.iter_mut().zip(x) {
            *g = -x;
            logp -= 0.5 * x * x;
        }
        Ok(logp)
    }

    fn expand_vector<R: Rng + ?Sized>(
        &mut self,
        _rng: &mut R,
        array: &[f64],
    ) -> Result<Self::ExpandedVector, CpuMathError> {
        Ok(array.to_vec())
    }
}

#[derive(Clone, Copy, PartialEq, Debug)]
enum Fault {
    /// Healthy model.
    None,
    /// `Model::math` works for the controller (first call) but fails in the chains.
    MathInChains,
    /// `Model::init_position` fails.
    InitPosition,
    /// The density is undefined everywhere: all initialisation attempts fail.
    AllInitPointsBad,
}

struct DemoModel {
    fault: Fault,
    math_calls: AtomicUsize,
}

impl Model for DemoModel {
    type Math<'model>
        = CpuMath<Logp>
    where
        Self: 'model;

    fn math<R: Rng + ?Sized>(&self, _rng: &mut R) -> Result<Self::Math<'_>> {
        let call = self.math_calls.fetch_add(1, Ordering::SeqCst);
        if self.fault == Fault::MathInChains && call > 0 {
            anyhow::bail!("could not build the density for a chain");
        }
        Ok(CpuMath::new(Logp {
            never_defined: self.fault == Fault::AllInitPointsBad,
        }))
    }

    fn init_position<R: Rng + ?Sized>(&self, _rng: &mut R, position: &mut [f64]) -> Result<()> {
        if self.fault == Fault::InitPosition {
            anyhow::bail!("could not generate an initial position");
        }
        position.fill(0.1);
        Ok(())
    }
}

/// Run the parallel sampler to the end, `Ok(())` if it reported success, `Err(msg)` if it
/// reported an error.
fn run(fault: Fault, num_tune: u64, num_draws: u64) -> std::result::Result<(), String> {
    let settings = DiagNutsSettings {
        num_chains: 3,
        num_tune,
        num_draws,
        seed: 7,
        ..Default::default()
    };
    let model = DemoModel {
        fault,
        math_calls: AtomicUsize::new(0),
    };
    let mut sampler =
        Sampler::new(model, settings, HashMapConfig::new(), 3, None).expect("sampler starts");
    // Generous bound, only to turn a hang into a test failure.
    for _ in 0..600 {
        match sampler.wait_timeout(Duration::from_millis(100)) {
            SamplerWaitResult::Trace(_) => return Ok(()),
            SamplerWaitResult::Err(err, _) => return Err(format!("{err:#}")),
            SamplerWaitResult::Timeout(s) => sampler = s,
        }
    }
    panic!("sampler did not finish");
}

const FAULTS: [Fault; 3] = [
    Fault::MathInChains,
    Fault::InitPosition,
    Fault::AllInitPointsBad,
];

#[test]
fn healthy_model_succeeds() {
    assert_eq!(run(Fault::None, 0, 0), Ok(()));
    assert_eq!(run(Fault::None, 5, 5), Ok(()));
}

/// Control: with at least one draw every fault is reported.
#[test]
fn faults_are_reported_with_draws() {
    for fault in FAULTS {
        let res = run(fault, 0, 1);
        assert!(res.is_err(), "{fault:?} with one draw reported success");
        let res = run(fault, 3, 2);
        assert!(res.is_err(), "{fault:?} with 3+2 draws reported success");
    }
}

/// The boundary configuration: a run of zero draws still has to build the model and
/// initialise every chain, and a failure of either must surface as an error.
#[test]
fn faults_are_reported_with_zero_draws() {
    let mut silent = vec![];
    for fault in FAULTS {
        match run(fault, 0, 0) {
            Err(msg) => println!("{fault:?}: reported `{msg}`"),
            Ok(()) => silent.push(fault),
        }
    }
    assert!(
        silent.is_empty(),
        "zero-draw run reported success although the chains failed with: {silent:?}"
    );
}
