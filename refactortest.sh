#!/usr/bin/env bash
# usage: refactortest.sh <patch.diff> [props...] — applies a (supposedly behaviour-preserving) change to /repo,
# runs the quick checks and lists every alarm (each one is a candidate false alarm to be triaged), then
# reverts /repo and rebuilds a clean binary.
patch="$1"; shift
props="${@:-C01 C02 C03 C04 C05 C06 C07 C08 C09 C10 C11 C12 C13 C14 C15 C16 C18}"
git -C /repo apply "$patch" || { echo "apply failed"; exit 2; }
for p in $props; do
  out=$(/verif/check "$p" 2>&1); code=$?
  echo "$p exit=$code $(echo "$out" | grep -E "quick:" | tail -1 | cut -c1-120)"
  if [ $code -ne 0 ]; then echo "$out" | grep -E "key:|detail:|HARNESS|^error" | cut -c1-300 | head -10; fi
done
git -C /repo checkout -- .
git -C /verif checkout -- evidence 2>/dev/null
(cd /verif/sim && CARGO_NET_OFFLINE=true cargo build --release --offline >/dev/null 2>&1)
