//! Runtime seam for `nuts-rs` under deterministic simulation (engine B, "schedsim").
//!
//! `src/sampler.rs` of the repository imports, under `--cfg nuts_rs_verif`, the names below instead of
//! `std::sync`, `std::thread`, `std::time::Instant` and `rayon`. Every operation on them is a scheduling
//! point of shuttle's executor, whose scheduler is the harness's own seeded scheduler, so one seed fixes
//! the whole interleaving. Time is simulated (shuttle itself has none).
//!
//! What is real and what is a stub:
//! * Mutex, channels, spawn/join: shuttle's models of the std primitives (same API, same blocking
//!   semantics, rendezvous channels included).
//! * `Instant`, `recv_timeout`: simulated clock, see [`clock`].
//! * `ThreadPoolBuilder` / `ScopeFifo`: a **stand-in** for rayon with the semantics the sampler relies on:
//!   `num_threads` workers in total, the scope body occupies one of them, jobs start in FIFO order, a
//!   panicking job does not stop the others and its payload is re-raised when the scope ends.

use std::any::Any;
use std::collections::VecDeque;
use std::marker::PhantomData;
use std::panic::{AssertUnwindSafe, catch_unwind, resume_unwind};
use std::time::Duration;

pub use std::sync::Arc;
pub use std::sync::mpsc::{RecvError, RecvTimeoutError, SendError, TryRecvError};

pub use shuttle::sync::Mutex;
pub use shuttle::sync::mpsc::{Sender, SyncSender};

pub mod clock {
    //! Simulated monotonic clock. One OS thread per execution, hence thread-local.
    use std::cell::Cell;
    thread_local! {
        static NOW_NS: Cell<u64> = const { Cell::new(0) };
        static TIMER_FIRES: Cell<u64> = const { Cell::new(0) };
        static TIMER_POLLS: Cell<u64> = const { Cell::new(0) };
        static EVENT_SEQ: Cell<u64> = const { Cell::new(0) };
    }
    pub fn reset() {
        NOW_NS.with(|c| c.set(0));
        TIMER_FIRES.with(|c| c.set(0));
        TIMER_POLLS.with(|c| c.set(0));
        EVENT_SEQ.with(|c| c.set(0));
    }
    pub fn now_ns() -> u64 {
        NOW_NS.with(|c| c.get())
    }
    pub fn advance_ns(d: u64) {
        NOW_NS.with(|c| c.set(c.get().saturating_add(d)));
    }
    pub fn jump_to(t: u64) {
        NOW_NS.with(|c| {
            if c.get() < t {
                c.set(t)
            }
        });
    }
    pub(crate) fn count_fire() {
        TIMER_FIRES.with(|c| c.set(c.get() + 1));
    }
    pub(crate) fn count_poll() {
        TIMER_POLLS.with(|c| c.set(c.get() + 1));
    }
    pub fn timer_fires() -> u64 {
        TIMER_FIRES.with(|c| c.get())
    }
    pub fn timer_polls() -> u64 {
        TIMER_POLLS.with(|c| c.get())
    }
    /// Global event sequence number of the simulation (total order of observed events).
    pub fn next_event() -> u64 {
        EVENT_SEQ.with(|c| {
            let v = c.get();
            c.set(v + 1);
            v
        })
    }
}

/// Simulated `std::time::Instant`.
#[derive(Clone, Copy, Debug, PartialEq, Eq, PartialOrd, Ord)]
pub struct Instant(u64);

impl Instant {
    pub fn now() -> Instant {
        // reading the clock costs 1 µs of simulated time, so that time always moves
        clock::advance_ns(1_000);
        Instant(clock::now_ns())
    }
    pub fn elapsed(&self) -> Duration {
        clock::advance_ns(1_000);
        Duration::from_nanos(clock::now_ns().saturating_sub(self.0))
    }
    pub fn duration_since(&self, earlier: Instant) -> Duration {
        Duration::from_nanos(self.0.saturating_sub(earlier.0))
    }
}

/// Receiver with a simulated `recv_timeout`.
pub struct Receiver<T> {
    inner: shuttle::sync::mpsc::Receiver<T>,
}

impl<T> Receiver<T> {
    pub fn recv(&self) -> Result<T, RecvError> {
        self.inner.recv()
    }
    pub fn try_recv(&self) -> Result<T, TryRecvError> {
        self.inner.try_recv()
    }
    /// `Duration::MAX` (and anything that overflows the clock) blocks like std's. A finite timeout polls:
    /// each poll is a scheduling point; the timer "fires" when the simulated clock has passed the deadline,
    /// or when the scheduler's random stream says so (then the clock jumps to the deadline). Any
    /// interleaving of a timer expiry with other events is possible in a real system, so letting the
    /// scheduler choose it is sound; it also bounds the number of polls.
    pub fn recv_timeout(&self, timeout: Duration) -> Result<T, RecvTimeoutError> {
        let now = clock::now_ns();
        let nanos = timeout.as_nanos();
        if nanos >= (u64::MAX / 4) as u128 {
            return self.inner.recv().map_err(|_| RecvTimeoutError::Disconnected);
        }
        let deadline = now.saturating_add(nanos as u64);
        loop {
            match self.inner.try_recv() {
                Ok(v) => return Ok(v),
                Err(TryRecvError::Disconnected) => return Err(RecvTimeoutError::Disconnected),
                Err(TryRecvError::Empty) => {}
            }
            clock::count_poll();
            if clock::now_ns() >= deadline {
                clock::count_fire();
                return Err(RecvTimeoutError::Timeout);
            }
            // one in four polls: nothing else happened in time, the timer fires
            if { use shuttle::rand::RngCore; shuttle::rand::thread_rng().next_u64() } & 3 == 0 {
                clock::jump_to(deadline);
                clock::count_fire();
                return Err(RecvTimeoutError::Timeout);
            }
            shuttle::thread::yield_now();
        }
    }
}

pub fn channel<T>() -> (Sender<T>, Receiver<T>) {
    let (tx, rx) = shuttle::sync::mpsc::channel();
    (tx, Receiver { inner: rx })
}

pub fn sync_channel<T>(bound: usize) -> (SyncSender<T>, Receiver<T>) {
    let (tx, rx) = shuttle::sync::mpsc::sync_channel(bound);
    (tx, Receiver { inner: rx })
}

/// `std::thread::JoinHandle` look-alike: a panic of the thread is caught and returned by `join`.
pub struct JoinHandle<T> {
    inner: shuttle::thread::JoinHandle<Result<T, Box<dyn Any + Send + 'static>>>,
}

impl<T> JoinHandle<T> {
    pub fn join(self) -> Result<T, Box<dyn Any + Send + 'static>> {
        match self.inner.join() {
            Ok(r) => r,
            Err(e) => Err(e),
        }
    }
}

pub fn spawn<F, T>(f: F) -> JoinHandle<T>
where
    F: FnOnce() -> T + Send + 'static,
    T: Send + 'static,
{
    JoinHandle {
        inner: shuttle::thread::spawn(move || catch_unwind(AssertUnwindSafe(f))),
    }
}

// ------------------------------------------------------------------------------------------------
// rayon stand-in

#[derive(Debug)]
pub struct ThreadPoolBuildError;
impl std::fmt::Display for ThreadPoolBuildError {
    fn fmt(&self, f: &mut std::fmt::Formatter<'_>) -> std::fmt::Result {
        write!(f, "thread pool build error")
    }
}
impl std::error::Error for ThreadPoolBuildError {}

#[derive(Default)]
pub struct ThreadPoolBuilder {
    num_threads: usize,
}

impl ThreadPoolBuilder {
    pub fn new() -> Self {
        Self { num_threads: 1 }
    }
    pub fn num_threads(mut self, n: usize) -> Self {
        self.num_threads = n.max(1);
        self
    }
    pub fn thread_name<F: FnMut(usize) -> String + 'static>(self, _f: F) -> Self {
        self
    }
    pub fn build(self) -> Result<ThreadPool, ThreadPoolBuildError> {
        Ok(ThreadPool {
            num_threads: self.num_threads,
        })
    }
}

pub struct ThreadPool {
    num_threads: usize,
}

type Job = Box<dyn FnOnce(&ScopeFifo<'static>) + Send + 'static>;

struct PoolState {
    queue: VecDeque<Job>,
    /// jobs spawned and not yet finished (queued or running)
    outstanding: usize,
    /// the scope body has returned: no job can be added any more except by running jobs
    closed: bool,
    panic: Option<Box<dyn Any + Send + 'static>>,
    started_jobs: usize,
}

struct PoolShared {
    state: shuttle::sync::Mutex<PoolState>,
    cond: shuttle::sync::Condvar,
}

pub struct ScopeFifo<'scope> {
    shared: Arc<PoolShared>,
    _marker: PhantomData<&'scope mut &'scope ()>,
}

impl<'scope> ScopeFifo<'scope> {
    pub fn spawn_fifo<F>(&self, f: F)
    where
        F: FnOnce(&ScopeFifo<'scope>) + Send + 'scope,
    {
        let job: Box<dyn FnOnce(&ScopeFifo<'scope>) + Send + 'scope> = Box::new(f);
        // SAFETY: `scope_fifo` does not return before every job has finished (as rayon), so everything
        // borrowed for 'scope outlives the job.
        let job: Job = unsafe { std::mem::transmute(job) };
        let mut st = self.shared.state.lock().unwrap();
        st.queue.push_back(job);
        st.outstanding += 1;
        drop(st);
        self.shared.cond.notify_all();
    }
}

fn run_one(shared: &Arc<PoolShared>, job: Job) {
    let scope = ScopeFifo::<'static> {
        shared: shared.clone(),
        _marker: PhantomData,
    };
    let r = catch_unwind(AssertUnwindSafe(|| job(&scope)));
    let mut st = shared.state.lock().unwrap();
    if let Err(p) = r {
        if st.panic.is_none() {
            st.panic = Some(p);
        }
    }
    st.outstanding -= 1;
    drop(st);
    shared.cond.notify_all();
}

/// Worker loop: run queued jobs in FIFO order until the scope is closed and nothing is outstanding.
fn worker_loop(shared: &Arc<PoolShared>) {
    loop {
        let mut st = shared.state.lock().unwrap();
        loop {
            if let Some(job) = st.queue.pop_front() {
                st.started_jobs += 1;
                drop(st);
                run_one(shared, job);
                break;
            }
            if st.closed && st.outstanding == 0 {
                return;
            }
            st = shared.cond.wait(st).unwrap();
        }
    }
}

impl ThreadPool {
    pub fn scope_fifo<'scope, OP, R>(&self, op: OP) -> R
    where
        OP: FnOnce(&ScopeFifo<'scope>) -> R + Send,
        R: Send,
    {
        let shared = Arc::new(PoolShared {
            state: shuttle::sync::Mutex::new(PoolState {
                queue: VecDeque::new(),
                outstanding: 0,
                closed: false,
                panic: None,
                started_jobs: 0,
            }),
            cond: shuttle::sync::Condvar::new(),
        });
        // `num_threads - 1` extra workers; the calling task is the worker that runs the scope body.
        let mut workers = Vec::new();
        for _ in 1..self.num_threads {
            let sh = shared.clone();
            workers.push(shuttle::thread::spawn(move || worker_loop(&sh)));
        }
        let scope = ScopeFifo::<'scope> {
            shared: shared.clone(),
            _marker: PhantomData,
        };
        let result = catch_unwind(AssertUnwindSafe(|| op(&scope)));
        {
            let mut st = shared.state.lock().unwrap();
            st.closed = true;
        }
        shared.cond.notify_all();
        // the scope body's worker helps draining, as a rayon worker waiting for its scope does
        worker_loop(&shared);
        for w in workers {
            let _ = w.join();
        }
        let job_panic = shared.state.lock().unwrap().panic.take();
        match result {
            Err(p) => resume_unwind(p),
            Ok(r) => {
                if let Some(p) = job_panic {
                    resume_unwind(p);
                }
                r
            }
        }
    }
}
