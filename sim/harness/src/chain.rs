//! Engine A ("chainsim"): one real chain of any preset, built through the public API, driven call by
//! call under `catch_unwind`, with the stub density's fault injector and evaluation log.

use std::panic::{AssertUnwindSafe, catch_unwind};

use nuts_rs::verif::StatsDims;
use nuts_rs::{
    Chain, CpuMath, DiagMclmcSettings, DiagNutsSettings, FlowMclmcSettings, FlowNutsSettings,
    LowRankMclmcSettings, LowRankNutsSettings, Math, Settings, Storable, Value,
};
use serde::{Deserialize, Serialize};

use crate::density::{EvalRecord, Fault, FaultKind, SimDensity, Target, new_log};
use crate::prng::{Digest, Prng, RandAdapter};

#[derive(Clone, Debug, Serialize, Deserialize)]
pub enum Preset {
    DiagNuts(DiagNutsSettings),
    LowRankNuts(LowRankNutsSettings),
    FlowNuts(FlowNutsSettings),
    DiagMclmc(DiagMclmcSettings),
    LowRankMclmc(LowRankMclmcSettings),
    FlowMclmc(FlowMclmcSettings),
}

impl Preset {
    pub fn name(&self) -> &'static str {
        match self {
            Preset::DiagNuts(_) => "diag_nuts",
            Preset::LowRankNuts(_) => "lowrank_nuts",
            Preset::FlowNuts(_) => "flow_nuts",
            Preset::DiagMclmc(_) => "diag_mclmc",
            Preset::LowRankMclmc(_) => "lowrank_mclmc",
            Preset::FlowMclmc(_) => "flow_mclmc",
        }
    }
    pub fn is_nuts(&self) -> bool {
        matches!(self, Preset::DiagNuts(_) | Preset::LowRankNuts(_) | Preset::FlowNuts(_))
    }
    pub fn is_flow(&self) -> bool {
        matches!(self, Preset::FlowNuts(_) | Preset::FlowMclmc(_))
    }
    pub fn num_tune(&self) -> u64 {
        match self {
            Preset::DiagNuts(s) => s.num_tune,
            Preset::LowRankNuts(s) => s.num_tune,
            Preset::FlowNuts(s) => s.num_tune,
            Preset::DiagMclmc(s) => s.num_tune,
            Preset::LowRankMclmc(s) => s.num_tune,
            Preset::FlowMclmc(s) => s.num_tune,
        }
    }
    pub fn num_draws(&self) -> u64 {
        match self {
            Preset::DiagNuts(s) => s.num_draws,
            Preset::LowRankNuts(s) => s.num_draws,
            Preset::FlowNuts(s) => s.num_draws,
            Preset::DiagMclmc(s) => s.num_draws,
            Preset::LowRankMclmc(s) => s.num_draws,
            Preset::FlowMclmc(s) => s.num_draws,
        }
    }
    pub fn set_num_tune(&mut self, n: u64) {
        match self {
            Preset::DiagNuts(s) => s.num_tune = n,
            Preset::LowRankNuts(s) => s.num_tune = n,
            Preset::FlowNuts(s) => s.num_tune = n,
            Preset::DiagMclmc(s) => s.num_tune = n,
            Preset::LowRankMclmc(s) => s.num_tune = n,
            Preset::FlowMclmc(s) => s.num_tune = n,
        }
    }
    pub fn set_num_draws(&mut self, n: u64) {
        match self {
            Preset::DiagNuts(s) => s.num_draws = n,
            Preset::LowRankNuts(s) => s.num_draws = n,
            Preset::FlowNuts(s) => s.num_draws = n,
            Preset::DiagMclmc(s) => s.num_draws = n,
            Preset::LowRankMclmc(s) => s.num_draws = n,
            Preset::FlowMclmc(s) => s.num_draws = n,
        }
    }
    pub fn max_energy_error(&self) -> f64 {
        match self {
            Preset::DiagNuts(s) => s.max_energy_error,
            Preset::LowRankNuts(s) => s.max_energy_error,
            Preset::FlowNuts(s) => s.max_energy_error,
            Preset::DiagMclmc(s) => s.max_energy_error,
            Preset::LowRankMclmc(s) => s.max_energy_error,
            Preset::FlowMclmc(s) => s.max_energy_error,
        }
    }
}

/// Explicit description of one engine-A run. A run is a pure function of this value.
#[derive(Clone, Debug, Serialize, Deserialize)]
pub struct ChainCfg {
    pub preset: Preset,
    pub target: Target,
    pub faults: Vec<Fault>,
    pub init: Vec<f64>,
    pub chain_seed: u64,
    pub chain_id: u64,
    /// number of draw() calls to make (usually num_tune + num_draws)
    pub n_calls: u64,
    /// keep the per-evaluation records (positions, gradients)
    pub keep_evals: bool,
    /// evaluation budget (0 = default 300k); a run that exhausts it is stopped and not judged afterwards
    #[serde(default)]
    pub max_evals: u64,
    /// call set_position again (with the same initial point) right before this draw call
    #[serde(default)]
    pub reinit_at: Option<u64>,
    /// run the chain on the delegating SimMath (records momentum draws, ESH updates, normalisations)
    #[serde(default)]
    pub observe_math: bool,
}

#[derive(Clone, Debug)]
pub struct ProgressRec {
    pub draw: u64,
    pub chain: u64,
    pub diverging: bool,
    pub tuning: bool,
    pub step_size: f64,
    pub num_steps: u64,
}

#[derive(Clone, Debug)]
pub struct DrawRec {
    pub pos: Vec<f64>,
    pub progress: ProgressRec,
    pub stats: Vec<(String, Option<Value>)>,
    pub expanded: Vec<(String, Option<Value>)>,
    /// evaluation indices [first, last) consumed by this call
    pub evals: (u64, u64),
    /// range of SimMath events emitted during this call (indices into History::math_events)
    pub math: (usize, usize),
    /// adaptation schedule counters after this call (hook H4), if the strategy has any
    pub counters: Option<nuts_rs::verif::AdaptCounters>,
    /// trajectory tap (hook H3) of this call: start states and every leapfrog result, in order
    pub tap: Vec<nuts_rs::verif::TapState>,
}

impl DrawRec {
    pub fn stat(&self, name: &str) -> Option<&Value> {
        self.stats.iter().find(|(n, _)| n == name).and_then(|(_, v)| v.as_ref())
    }
    pub fn has_name(&self, name: &str) -> bool {
        self.stats.iter().any(|(n, _)| n == name)
    }
    pub fn f64(&self, name: &str) -> Option<f64> {
        match self.stat(name)? {
            Value::ScalarF64(v) => Some(*v),
            _ => None,
        }
    }
    pub fn u64(&self, name: &str) -> Option<u64> {
        match self.stat(name)? {
            Value::ScalarU64(v) => Some(*v),
            _ => None,
        }
    }
    pub fn i64(&self, name: &str) -> Option<i64> {
        match self.stat(name)? {
            Value::ScalarI64(v) => Some(*v),
            _ => None,
        }
    }
    pub fn bool(&self, name: &str) -> Option<bool> {
        match self.stat(name)? {
            Value::ScalarBool(v) => Some(*v),
            _ => None,
        }
    }
    pub fn vec(&self, name: &str) -> Option<&Vec<f64>> {
        match self.stat(name)? {
            Value::F64(v) => Some(v),
            _ => None,
        }
    }
    pub fn string(&self, name: &str) -> Option<&String> {
        match self.stat(name)? {
            Value::ScalarString(v) => Some(v),
            _ => None,
        }
    }
}

#[derive(Clone, Debug, PartialEq)]
pub enum CallResult {
    Ok,
    Err(String),
    Panic(String),
}

#[derive(Clone, Debug)]
pub struct Schema {
    pub names: Vec<String>,
    pub types: Vec<(String, nuts_rs::ItemType)>,
    pub dims: Vec<(String, Vec<String>)>,
    pub event_dims: Vec<(String, Option<String>)>,
    pub dim_sizes: std::collections::HashMap<String, u64>,
}

#[derive(Clone, Debug)]
pub struct History {
    /// None when chain construction panicked
    pub schema: Option<Schema>,
    pub new_chain: CallResult,
    pub set_position: CallResult,
    /// evaluation indices consumed by set_position
    pub set_position_evals: (u64, u64),
    pub draws: Vec<DrawRec>,
    /// result of the last draw call if it did not return Ok (the run stops there)
    pub failed_call: Option<(u64, CallResult, (u64, u64))>,
    /// trajectory tap of the failed call
    pub failed_tap: Vec<nuts_rs::verif::TapState>,
    pub evals: Vec<EvalRecord>,
    pub n_evals: u64,
    pub faults_fired: Vec<(u64, FaultKind)>,
    pub flow_updates: u64,
    pub budget_exhausted: bool,
    pub math_events: Vec<crate::simmath::MathEvent>,
    /// counters right after set_position
    pub init_counters: Option<nuts_rs::verif::AdaptCounters>,
    /// trajectory tap of the first set_position (the initial step-size search), with observe_math
    pub init_tap: Vec<nuts_rs::verif::TapState>,
}

impl History {
    pub fn digest(&self) -> u64 {
        let mut d = Digest::new();
        d.str(&format!("{:?}", self.new_chain));
        d.str(&format!("{:?}", self.set_position));
        for r in &self.draws {
            d.f64s(&r.pos);
            d.u64(r.progress.draw);
            d.bool(r.progress.diverging);
            d.bool(r.progress.tuning);
            d.f64(r.progress.step_size);
            d.u64(r.progress.num_steps);
            for (n, v) in &r.stats {
                d.str(n);
                digest_value(&mut d, v);
            }
            d.u64(r.evals.0);
            d.u64(r.evals.1);
        }
        if let Some((i, r, _)) = &self.failed_call {
            d.u64(*i);
            d.str(&format!("{:?}", r));
        }
        d.u64(self.n_evals);
        d.0
    }
}

pub fn digest_value(d: &mut Digest, v: &Option<Value>) {
    match v {
        None => d.u64(0),
        Some(v) => match v {
            Value::U64(x) => {
                d.u64(1);
                for a in x {
                    d.u64(*a)
                }
            }
            Value::I64(x) => {
                d.u64(2);
                for a in x {
                    d.u64(*a as u64)
                }
            }
            Value::F64(x) => {
                d.u64(3);
                d.f64s(x)
            }
            Value::F32(x) => {
                d.u64(4);
                for a in x {
                    d.u64(a.to_bits() as u64)
                }
            }
            Value::Bool(x) => {
                d.u64(5);
                for a in x {
                    d.bool(*a)
                }
            }
            Value::ScalarString(s) => {
                d.u64(6);
                d.str(s)
            }
            Value::DateTime64(_, x) => {
                d.u64(7);
                for a in x {
                    d.u64(*a as u64)
                }
            }
            Value::TimeDelta64(_, x) => {
                d.u64(8);
                for a in x {
                    d.u64(*a as u64)
                }
            }
            Value::ScalarU64(x) => {
                d.u64(9);
                d.u64(*x)
            }
            Value::ScalarI64(x) => {
                d.u64(10);
                d.u64(*x as u64)
            }
            Value::ScalarF64(x) => {
                d.u64(11);
                d.f64(*x)
            }
            Value::ScalarF32(x) => {
                d.u64(12);
                d.u64(x.to_bits() as u64)
            }
            Value::ScalarBool(x) => {
                d.u64(13);
                d.bool(*x)
            }
            Value::Strings(x) => {
                d.u64(14);
                for s in x {
                    d.str(s)
                }
            }
        },
    }
}

pub fn panic_message(p: Box<dyn std::any::Any + Send>) -> String {
    if let Some(s) = p.downcast_ref::<&str>() {
        s.to_string()
    } else if let Some(s) = p.downcast_ref::<String>() {
        s.clone()
    } else {
        "<non-string panic payload>".to_string()
    }
}

fn owned(v: Vec<(&str, Option<Value>)>) -> Vec<(String, Option<Value>)> {
    v.into_iter().map(|(n, v)| (n.to_string(), v)).collect()
}

fn run_with<S: Settings>(settings: S, cfg: &ChainCfg) -> History {
    let log = new_log(cfg.keep_evals);
    let density = SimDensity::new(cfg.target.clone(), cfg.faults.clone(), log.clone());
    let math = CpuMath::new(density);
    if cfg.observe_math {
        let events: crate::simmath::MathLog = Default::default();
        let m = crate::simmath::SimMath::new(math, log.clone(), events.clone());
        let mut h = run_inner(settings, m, cfg, log, Some(events.clone()));
        h.math_events = std::mem::take(&mut *events.lock().unwrap());
        h
    } else {
        run_inner(settings, math, cfg, log, None)
    }
}

fn run_inner<S: Settings, M: Math>(settings: S, math: M, cfg: &ChainCfg, log: crate::density::SharedLog, events: Option<crate::simmath::MathLog>) -> History {
    let ev_len = || events.as_ref().map(|e| e.lock().unwrap().len()).unwrap_or(0);
    let mut hist = History {
        schema: None,
        new_chain: CallResult::Ok,
        set_position: CallResult::Ok,
        set_position_evals: (0, 0),
        draws: vec![],
        failed_call: None,
        failed_tap: vec![],
        init_tap: vec![],
        evals: vec![],
        n_evals: 0,
        faults_fired: vec![],
        flow_updates: 0,
        budget_exhausted: false,
        math_events: vec![],
        init_counters: None,
    };
    log.lock().unwrap().max_evals = if cfg.max_evals == 0 { 300_000 } else { cfg.max_evals };
    let schema = catch_unwind(AssertUnwindSafe(|| Schema {
        names: settings.stat_names(&math),
        types: settings.stat_types(&math),
        dims: settings.stat_dims_all(&math),
        event_dims: settings.stat_event_dims(&math),
        dim_sizes: settings.stat_dim_sizes(&math),
    }));
    hist.schema = schema.ok();

    let mut rng = RandAdapter(Prng::new(cfg.chain_seed));
    let chain = catch_unwind(AssertUnwindSafe(|| settings.new_chain(cfg.chain_id, math, &mut rng)));
    let mut chain = match chain {
        Ok(c) => c,
        Err(p) => {
            hist.new_chain = CallResult::Panic(panic_message(p));
            finish(&mut hist, &log);
            return hist;
        }
    };
    let n0 = log.lock().unwrap().n_evals;
    if cfg.observe_math {
        nuts_rs::verif::tap_enable();
    }
    let r = catch_unwind(AssertUnwindSafe(|| chain.set_position(&cfg.init)));
    if cfg.observe_math {
        hist.init_tap = nuts_rs::verif::tap_take();
        nuts_rs::verif::tap_disable();
    }
    let n1 = log.lock().unwrap().n_evals;
    hist.set_position_evals = (n0, n1);
    match r {
        Ok(Ok(())) => {}
        Ok(Err(e)) => {
            hist.set_position = CallResult::Err(format!("{e:#}"));
            finish(&mut hist, &log);
            return hist;
        }
        Err(p) => {
            hist.set_position = CallResult::Panic(panic_message(p));
            // the chain may be in an inconsistent state: do not touch it again, and do not drop it
            std::mem::forget(chain);
            finish(&mut hist, &log);
            return hist;
        }
    }
    hist.init_counters = chain.verif_adapt_counters();
    for i in 0..cfg.n_calls {
        if cfg.reinit_at == Some(i) && i > 0 {
            let r = catch_unwind(AssertUnwindSafe(|| chain.set_position(&cfg.init)));
            match r {
                Ok(Ok(())) => {}
                Ok(Err(e)) => {
                    let n = log.lock().unwrap().n_evals;
                    hist.failed_call = Some((i, CallResult::Err(format!("re-init: {e:#}")), (n, n)));
                    break;
                }
                Err(p) => {
                    let n = log.lock().unwrap().n_evals;
                    hist.failed_call = Some((i, CallResult::Panic(format!("re-init: {}", panic_message(p))), (n, n)));
                    std::mem::forget(chain);
                    finish(&mut hist, &log);
                    return hist;
                }
            }
        }
        let n0 = log.lock().unwrap().n_evals;
        let m0 = ev_len();
        if cfg.observe_math {
            nuts_rs::verif::tap_enable();
        }
        let r = catch_unwind(AssertUnwindSafe(|| chain.expanded_draw()));
        let tap = if cfg.observe_math { nuts_rs::verif::tap_take() } else { vec![] };
        nuts_rs::verif::tap_disable();
        let n1 = log.lock().unwrap().n_evals;
        let m1 = ev_len();
        match r {
            Ok(Ok((pos, mut expanded, mut stats, progress))) => {
                let (stats_v, exp_v) = {
                    let math = chain.math();
                    let dims = StatsDims::from(&*math);
                    let s = owned(stats.get_all(&dims));
                    let e = owned(expanded.get_all(&*math));
                    (s, e)
                };
                hist.draws.push(DrawRec {
                    pos: pos.to_vec(),
                    progress: ProgressRec {
                        draw: progress.draw,
                        chain: progress.chain,
                        diverging: progress.diverging,
                        tuning: progress.tuning,
                        step_size: progress.step_size,
                        num_steps: progress.num_steps,
                    },
                    stats: stats_v,
                    expanded: exp_v,
                    evals: (n0, n1),
                    math: (m0, m1),
                    counters: chain.verif_adapt_counters(),
                    tap,
                });
            }
            Ok(Err(e)) => {
                hist.failed_call = Some((i, CallResult::Err(format!("{e:#}")), (n0, n1)));
                hist.failed_tap = tap;
                break;
            }
            Err(p) => {
                hist.failed_tap = tap;
                hist.failed_call = Some((i, CallResult::Panic(panic_message(p)), (n0, n1)));
                std::mem::forget(chain);
                finish(&mut hist, &log);
                return hist;
            }
        }
    }
    drop(chain);
    finish(&mut hist, &log);
    hist
}

fn finish(hist: &mut History, log: &crate::density::SharedLog) {
    let mut l = log.lock().unwrap();
    hist.evals = std::mem::take(&mut l.evals);
    hist.n_evals = l.n_evals;
    hist.faults_fired = l.faults_fired.clone();
    hist.flow_updates = l.flow_updates;
    hist.budget_exhausted = l.budget_exhausted;
}

pub fn run_chain(cfg: &ChainCfg) -> History {
    match &cfg.preset {
        Preset::DiagNuts(s) => run_with(*s, cfg),
        Preset::LowRankNuts(s) => run_with(*s, cfg),
        Preset::FlowNuts(s) => run_with(*s, cfg),
        Preset::DiagMclmc(s) => run_with(*s, cfg),
        Preset::LowRankMclmc(s) => run_with(*s, cfg),
        Preset::FlowMclmc(s) => run_with(*s, cfg),
    }
}

/// Keep the linker from dropping the generic Math bound (used by later engines).
#[allow(dead_code)]
fn _assert_math<M: Math>() {}
