// (included into storesim.rs)

fn read_hashmap_generic<R>(res: &[R], get: impl Fn(&R) -> (&HashMap<String, nuts_rs::HashMapValue>, &HashMap<String, nuts_rs::HashMapValue>)) -> Canon {
    use nuts_rs::HashMapValue as V;
    let mut m: Canon = BTreeMap::new();
    let conv = |v: &V| match v {
        V::F64(x) => Col::F64(x.iter().map(|x| canon_f64(*x)).collect()),
        V::F32(x) => Col::F32(x.iter().map(|x| canon_f32(*x)).collect()),
        V::Bool(x) => Col::Bool(x.clone()),
        V::I64(x) => Col::I64(x.clone()),
        V::U64(x) => Col::U64(x.clone()),
        V::String(x) => Col::Str(x.clone()),
    };
    for (c, r) in res.iter().enumerate() {
        let (stats, draws) = get(r);
        for (k, v) in stats {
            m.insert((c, "stats", "all", k.clone()), conv(v));
        }
        for (k, v) in draws {
            m.insert((c, "draws", "all", k.clone()), conv(v));
        }
    }
    m
}

fn end_violation<F>(backend: &str, end: &DriveEnd<F>, out: &mut RunOutcome) -> bool {
    match end {
        DriveEnd::Finalized(None, _) => false,
        DriveEnd::Finalized(Some(e), _) => {
            out.violate(format!("C14/{backend}/finalize_reported_error"), format!("finalize returned an error object: {}", e.chars().take(200).collect::<String>()));
            true
        }
        DriveEnd::Failed(e, site) => {
            out.violate(format!("C14/{backend}/call_failed/{site}"), format!("{site} returned Err: {}", e.chars().take(200).collect::<String>()));
            true
        }
        DriveEnd::Panicked(e, site) => {
            out.violate(format!("C14/{backend}/panicked/{site}"), format!("{site} panicked: {}", e.chars().take(200).collect::<String>()));
            true
        }
    }
}

fn zarr_checks(
    backend: &str,
    prop: &str,
    what: &str,
    store: Arc<dyn ReadableListableStorageTraits>,
    h: &Histories,
    upto: &[usize],
    only_chains: Option<&[usize]>,
    sc: &StoreScenario,
    final_check: bool,
    out: &mut RunOutcome,
) {
    let mut errs = vec![];
    let (got, shapes) = read_zarr(store, h, "", only_chains, &mut errs);
    if !errs.is_empty() {
        out.violate(format!("{prop}/{backend}/array_unreadable"), format!("{what}: {}", errs[0].chars().take(200).collect::<String>()));
        return;
    }
    let o = ModelOpts { skip_draw_chain: true, split_phases: true, store_warmup: true };
    let mut want = model_canon(h, upto, &o);
    if let Some(only) = only_chains {
        want.retain(|k, _| only.contains(&k.0));
    }
    if !sc.store_warmup {
        // warmup arrays must not contain the warmup draws
        let mut leaked = false;
        for (k, g) in &got {
            if k.2 == "warmup" && k.3 == "logp" {
                if let Col::F64(v) = g {
                    if v.iter().any(|b| !f64::from_bits(*b).is_nan()) {
                        leaked = true;
                    }
                }
            }
        }
        if leaked && final_check {
            out.violate(format!("C14/{backend}/store_warmup_false_ignored"), format!("{what}: store_warmup(false) was configured but the warmup groups contain the warmup draws"));
        }
        want.retain(|k, _| k.2 != "warmup");
    }
    // compare with padding (arrays are pre-sized and hold fill values beyond the written prefix)
    let mut tmp = RunOutcome::default();
    compare(backend, what, &got, &want, true, &mut tmp);
    for mut v in tmp.violations {
        if prop != "C14" {
            v.key = v.key.replacen("C14/", &format!("{prop}/"), 1);
        }
        out.violations.push(v);
    }
    if final_check {
        // event arrays contain exactly the events that occurred: length = max count over chains
        for (name, ev) in &h.stat_event_dims {
            let Some(_ev) = ev else { continue };
            for (phase, group) in [("warmup", "warmup_sample_stats"), ("sample", "sample_stats")] {
                if !sc.store_warmup && phase == "warmup" {
                    continue;
                }
                let max_count = (0..h.chains.len())
                    .map(|c| {
                        h.chains[c]
                            .iter()
                            .take(upto[c])
                            .filter(|r| (r.progress.tuning == (phase == "warmup")) && r.stats.iter().any(|(n, v)| n == name && v.is_some()))
                            .count() as u64
                    })
                    .max()
                    .unwrap_or(0);
                // the dimension's length is the maximum over the fields of the dimension
                let dim_max = h
                    .stat_event_dims
                    .iter()
                    .filter(|(_, e)| e == ev)
                    .map(|(n2, _)| {
                        (0..h.chains.len())
                            .map(|c| h.chains[c].iter().take(upto[c]).filter(|r| (r.progress.tuning == (phase == "warmup")) && r.stats.iter().any(|(n, v)| n == n2 && v.is_some())).count() as u64)
                            .max()
                            .unwrap_or(0)
                    })
                    .max()
                    .unwrap_or(0);
                if let Some(shape) = shapes.get(&(group.to_string(), name.clone())) {
                    if shape[1] < max_count || shape[1] > dim_max.max(max_count) {
                        out.violate(
                            format!("C14/{backend}/event_array_length/{name}"),
                            format!("{what}: {group}/{name} has length {} along its event dimension; {max_count} events of this field occurred (dimension maximum {dim_max})", shape[1]),
                        );
                    }
                }
            }
        }
    }
}

fn run_store<S: Settings>(settings: S, sc: &StoreScenario) -> RunOutcome {
    let mut out = RunOutcome::default();
    let h = match catch_unwind(AssertUnwindSafe(|| gen_histories(&settings, sc))) {
        Ok(Ok(h)) => h,
        Ok(Err(_)) | Err(_) => {
            // the chain itself failed (e.g. an injected unrecoverable error): no history to store
            out.probe("history_generation_failed", 1);
            return out;
        }
    };
    let lens: Vec<usize> = h.chains.iter().map(|c| c.len()).collect();
    let ops = plan_ops(sc, &lens);
    let n_div: usize = h.chains.iter().map(|c| c.iter().filter(|r| r.progress.diverging).count()).sum();
    out.probe("divergent_draws_in_histories", n_div as u64);
    out.probe("flush_ops", ops.iter().filter(|o| matches!(o, Op::Flush(_))).count() as u64);
    out.probe("inspect_ops", ops.iter().filter(|o| matches!(o, Op::Inspect)).count() as u64);
    out.sim_draws = lens.iter().sum::<usize>() as u64;
    let mut dg = Digest::new();
    dg.u64(hist_digest(&h));
    let prop = sc.prop.as_str();
    for b in &sc.backends {
        out.probe(&format!("backend_{}", b.name()), 1);
        match b {
            Backend::HashMap => {
                let hh = &h;
                let mut hooks = DriveHooks {
                    on_flush: Box::new(|_, _, _| {}),
                    on_inspect: Box::new(move |f: Vec<nuts_rs::verif::HashMapResult>, done: &[usize], out: &mut RunOutcome| {
                        let got = read_hashmap_generic(&f, |r| (&r.stats, &r.draws));
                        let want = model_canon(hh, done, &ModelOpts { skip_draw_chain: true, split_phases: false, store_warmup: true });
                        compare("hashmap", "inspect", &got, &want, false, out);
                    }),
                };
                let end = drive(&settings, sc, nuts_rs::HashMapConfig::new(), &h, &ops, &mut hooks, &mut out);
                drop(hooks);
                if !end_violation("hashmap", &end, &mut out) {
                    if let DriveEnd::Finalized(_, f) = end {
                        let got = read_hashmap_generic(&f, |r| (&r.stats, &r.draws));
                        let want = model_canon(&h, &lens, &ModelOpts { skip_draw_chain: true, split_phases: false, store_warmup: true });
                        compare("hashmap", "finalize", &got, &want, false, &mut out);
                    }
                }
            }
            Backend::Arrow => {
                let mut cfg = nuts_rs::ArrowConfig::default();
                cfg.store_warmup = sc.store_warmup;
                let hh = &h;
                let sw = sc.store_warmup;
                let mut hooks = DriveHooks {
                    on_flush: Box::new(|_, _, _| {}),
                    on_inspect: Box::new(move |f: Vec<nuts_rs::ArrowTrace>, done: &[usize], out: &mut RunOutcome| {
                        let got = read_arrow(&f, out);
                        let want = model_canon(hh, done, &ModelOpts { skip_draw_chain: false, split_phases: false, store_warmup: sw });
                        compare("arrow", "inspect", &got, &want, false, out);
                    }),
                };
                let end = drive(&settings, sc, cfg, &h, &ops, &mut hooks, &mut out);
                drop(hooks);
                if !end_violation("arrow", &end, &mut out) {
                    if let DriveEnd::Finalized(_, f) = end {
                        let got = read_arrow(&f, &mut out);
                        let want = model_canon(&h, &lens, &ModelOpts { skip_draw_chain: false, split_phases: false, store_warmup: sc.store_warmup });
                        compare("arrow", "finalize", &got, &want, false, &mut out);
                        // row counts: one row per stored draw
                        for (c, t) in f.iter().enumerate() {
                            let expect = h.chains[c].iter().filter(|r| sc.store_warmup || !r.progress.tuning).count();
                            if t.posterior.num_rows() != expect || t.sample_stats.num_rows() != expect {
                                out.violate("C14/arrow/row_count", format!("chain {c}: posterior {} rows, sample_stats {} rows, recorded {expect}", t.posterior.num_rows(), t.sample_stats.num_rows()));
                            }
                        }
                    }
                }
            }
            Backend::Ndarray => {
                let mut hooks = DriveHooks { on_flush: Box::new(|_, _, _| {}), on_inspect: Box::new(|_f: nuts_rs::NdarrayTrace, _d: &[usize], _o: &mut RunOutcome| {}) };
                let end = drive(&settings, sc, nuts_rs::NdarrayConfig::new(), &h, &ops, &mut hooks, &mut out);
                drop(hooks);
                if !end_violation("ndarray", &end, &mut out) {
                    if let DriveEnd::Finalized(_, f) = end {
                        let got = read_ndarray(&f, &h, &lens);
                        let want = model_canon(&h, &lens, &ModelOpts { skip_draw_chain: true, split_phases: false, store_warmup: true });
                        compare("ndarray", "finalize", &got, &want, false, &mut out);
                    }
                }
            }
            Backend::Csv => {
                run_csv(&settings, sc, &h, &ops, &lens, &mut out);
            }
            Backend::ZarrSync => {
                // in-memory store, or the real filesystem store on a per-run scratch directory (removed afterwards)
                let fs_dir = crate::driver::verif_root().join(".scratch").join(format!("zarr-{:016x}-{:016x}-{}", sc.chain_seed, sc.ops_seed, sc.fail_write.map(|k| k as i64).unwrap_or(-1)));
                let fstore = if sc.filesystem {
                    let _ = std::fs::remove_dir_all(&fs_dir);
                    if let Err(e) = std::fs::create_dir_all(&fs_dir) {
                        crate::driver::harness_error(&format!("cannot create scratch directory {}: {e}", fs_dir.display()));
                    }
                    out.probe("filesystem_store_runs", 1);
                    Arc::new(FaultStore::new_filesystem(&fs_dir, sc.fail_write).unwrap_or_else(|e| crate::driver::harness_error(&format!("filesystem store: {e}"))))
                } else {
                    Arc::new(FaultStore::new(sc.fail_write, sc.crash_every_write))
                };
                // (store writes completed when a flush returned, prefixes acknowledged by then)
                let acks: std::cell::RefCell<Vec<(u64, Vec<usize>)>> = std::cell::RefCell::new(vec![]);
                let acks_ref = &acks;
                let cfg = nuts_rs::ZarrConfig::new(fstore.clone()).with_chunk_size(sc.chunk_size).store_warmup(sc.store_warmup);
                let hh = &h;
                let fs2 = fstore.clone();
                let flushed: std::cell::RefCell<Vec<usize>> = std::cell::RefCell::new(vec![0; lens.len()]);
                let flushed_ref = &flushed;
                let flush_count: std::cell::RefCell<u64> = std::cell::RefCell::new(0);
                let flush_count_ref = &flush_count;
                let mut hooks = DriveHooks {
                    on_flush: Box::new(move |c: usize, done: &[usize], out: &mut RunOutcome| {
                        if prop != "C15" {
                            return;
                        }
                        flushed_ref.borrow_mut()[c] = done[c];
                        let snap = fs2.snapshot();
                        let upto = flushed_ref.borrow().clone();
                        acks_ref.borrow_mut().push((fs2.state.lock().unwrap().writes, upto.clone()));
                        let n_flush = { let mut k = flush_count_ref.borrow_mut(); *k += 1; *k };
                        // the flushed chain is checked at every flush; all earlier acknowledgements of all chains
                        // are re-checked at every third flush and after finalize
                        let only = [c];
                        let chains: Option<&[usize]> = if n_flush % 3 == 0 { None } else { Some(&only) };
                        zarr_checks("zarr_sync", "C15", &format!("fresh reader after flush of chain {c} at draws {:?}", done), snap, hh, &upto, chains, sc, false, out);
                        out.probe("flush_points_checked", 1);
                        if done[c] as u64 % sc.chunk_size != 0 {
                            out.probe("flush_with_partial_chunk", 1);
                        } else {
                            out.probe("flush_on_chunk_boundary", 1);
                        }
                    }),
                    on_inspect: Box::new(|_f: (), _d: &[usize], _o: &mut RunOutcome| {}),
                };
                let end = drive(&settings, sc, cfg, &h, &ops, &mut hooks, &mut out);
                drop(hooks);
                let failed_write = fstore.state.lock().unwrap().failed;
                out.probe("store_writes", fstore.state.lock().unwrap().writes);
                if failed_write {
                    out.probe("store_write_fault_fired", 1);
                    // the failing call must return Err (no panic); acknowledged prefixes stay readable
                    match &end {
                        DriveEnd::Panicked(m, site) => out.violate(format!("{prop}/zarr_sync/panic_on_store_error/{site}"), m.chars().take(200).collect::<String>()),
                        DriveEnd::Finalized(None, _) => out.violate(format!("{prop}/zarr_sync/store_error_swallowed"), "a store write failed but every call returned Ok"),
                        _ => {}
                    }
                    let upto = flushed.borrow().clone();
                    if upto.iter().any(|n| *n > 0) {
                        let acked: Vec<usize> = (0..upto.len()).filter(|c| upto[*c] > 0).collect();
                        zarr_checks("zarr_sync", prop, "store after a failed write (acknowledged prefixes)", fstore.snapshot(), &h, &upto, Some(&acked), sc, false, &mut out);
                        out.probe("acknowledged_prefix_checked_after_write_fault", 1);
                    }
                } else {
                    let bad = if prop == "C14" { end_violation("zarr_sync", &end, &mut out) } else { !matches!(end, DriveEnd::Finalized(None, _)) };
                    if prop == "C15" {
                        if let DriveEnd::Panicked(m, site) | DriveEnd::Failed(m, site) = &end {
                            out.violate(format!("C15/zarr_sync/call_failed/{site}"), m.chars().take(200).collect::<String>());
                        }
                    }
                    if !bad && prop != "C13" {
                        zarr_checks("zarr_sync", prop, "fresh reader after finalize", fstore.snapshot(), &h, &lens, None, sc, prop == "C14", &mut out);
                    }
                }
                if sc.crash_every_write && prop == "C15" {
                    // crash between two store writes: the snapshot taken after write k must still hold every prefix
                    // that a flush which had returned before write k acknowledged
                    let log = std::mem::take(&mut fstore.state.lock().unwrap().write_log);
                    let acks = acks.borrow();
                    let is_eligible = |k: u64| acks.iter().any(|(w, u)| *w < k && u.iter().any(|n| *n > 0));
                    let n_eligible = log.iter().filter(|(k, _)| is_eligible(*k)).count();
                    let stride = (n_eligible / 160).max(1);
                    let off = (sc.ops_seed as usize) % stride;
                    // the store as a fresh reader would find it after each write, rebuilt write by write
                    let replay = Arc::new(zarrs::storage::store::MemoryStore::new());
                    let mut i = 0usize;
                    for (k, rec) in log.iter() {
                        crate::storesim::apply_write_rec(&replay, rec);
                        if !is_eligible(*k) {
                            continue;
                        }
                        i += 1;
                        if (i - 1) % stride != off && i != n_eligible {
                            continue;
                        }
                        let Some((w, upto)) = acks.iter().rev().find(|(w, _)| w < k) else { continue };
                        let acked: Vec<usize> = (0..upto.len()).filter(|c| upto[*c] > 0).collect();
                        let before = out.violations.len();
                        zarr_checks("zarr_sync", "C15", &format!("crash after store write {k} (last flush returned after write {w}, acknowledged prefixes {:?})", upto), replay.clone(), &h, upto, Some(&acked), sc, false, &mut out);
                        for v in out.violations[before..].iter_mut() {
                            v.key = v.key.replacen("C15/zarr_sync/", "C15/zarr_sync/crash_between_writes/", 1);
                        }
                        out.probe("crash_points_between_store_writes_checked", 1);
                        if out.violations.len() > before {
                            break;
                        }
                    }
                }
                if sc.filesystem {
                    let _ = std::fs::remove_dir_all(&fs_dir);
                }
            }
            Backend::ZarrAsync => {
                run_zarr_async(&settings, sc, &h, &ops, &lens, &mut out);
            }
        }
    }
    out.digest = dg.0;
    out.nontrivial = out.sim_draws > 0 && (n_div > 0 || ops.iter().any(|o| matches!(o, Op::Flush(_))) || prop == "C14");
    out
}

fn run_csv<S: Settings>(settings: &S, sc: &StoreScenario, h: &Histories, ops: &[Op], lens: &[usize], out: &mut RunOutcome) {
    // the filesystem is real: a per-run scratch directory, removed afterwards
    let dir = crate::driver::verif_root().join(".scratch").join(format!("csv-{:016x}-{:016x}", sc.chain_seed, sc.ops_seed));
    let _ = std::fs::remove_dir_all(&dir);
    let precision = *Prng::sub(sc.ops_seed, "csv").pick(&[6usize, 12, 17]);
    let cfg = nuts_rs::CsvConfig::new(&dir).with_precision(precision).store_warmup(sc.store_warmup);
    let mut hooks = DriveHooks { on_flush: Box::new(|_, _, _| {}), on_inspect: Box::new(|_f: (), _d: &[usize], _o: &mut RunOutcome| {}) };
    let end = drive(settings, sc, cfg, h, ops, &mut hooks, out);
    drop(hooks);
    if !end_violation("csv", &end, out) {
        check_csv(&dir, sc, h, lens, precision, out);
    }
    let _ = std::fs::remove_dir_all(&dir);
}

fn csv_cell_matches(cell: &str, v: f64, precision: usize) -> bool {
    if v.is_nan() {
        return cell == "NA";
    }
    if v.is_infinite() {
        return cell == if v > 0.0 { "Inf" } else { "-Inf" };
    }
    match cell.parse::<f64>() {
        Ok(x) => {
            let half_ulp = 0.5 * 10f64.powi(-(precision as i32));
            (x - v).abs() <= half_ulp * (1.0 + 1e-6) + 1e-15 * v.abs()
        }
        Err(_) => false,
    }
}

fn check_csv(dir: &std::path::Path, sc: &StoreScenario, h: &Histories, lens: &[usize], precision: usize, out: &mut RunOutcome) {
    // numeric variables in declaration order, flattened in row-major order
    let numeric: Vec<&(String, ItemType)> = h.data_types.iter().filter(|(_, t)| matches!(t, ItemType::F64 | ItemType::F32 | ItemType::I64 | ItemType::U64)).collect();
    for c in 0..h.chains.len() {
        let path = dir.join(format!("chain_{c}.csv"));
        let stored: Vec<&Rec> = h.chains[c].iter().take(lens[c]).filter(|r| sc.store_warmup || !r.progress.tuning).collect();
        let text = match std::fs::read_to_string(&path) {
            Ok(t) => t,
            Err(e) => {
                if !stored.is_empty() {
                    out.violate("C14/csv/file_missing", format!("chain {c}: {e}"));
                }
                continue;
            }
        };
        let mut lines = text.lines();
        let header = lines.next().unwrap_or("");
        let rows: Vec<&str> = lines.collect();
        if stored.is_empty() {
            if !rows.is_empty() {
                out.violate("C14/csv/extra_rows", format!("chain {c}: {} rows, nothing was recorded", rows.len()));
            }
            continue;
        }
        if rows.len() != stored.len() {
            out.violate("C14/csv/row_count", format!("chain {c}: {} rows in the file, {} draws recorded (store_warmup {})", rows.len(), stored.len(), sc.store_warmup));
            continue;
        }
        let n_head = header.split(',').count();
        for (ri, (row, rec)) in rows.iter().zip(&stored).enumerate() {
            let cells: Vec<&str> = row.split(',').collect();
            if cells.len() != n_head {
                out.violate("C14/csv/column_count", format!("chain {c} row {ri}: {} cells, header has {n_head}", cells.len()));
                return;
            }
            let stat = |name: &str| rec.stats.iter().find(|(n, _)| n == name).and_then(|(_, v)| v.clone());
            let expect_stats: Vec<(&str, Option<Value>)> = vec![("logp", stat("logp")), ("mean_tree_accept", stat("mean_tree_accept")), ("step_size", stat("step_size")), ("depth", stat("depth")), ("n_steps", stat("n_steps")), ("diverging", stat("diverging")), ("energy", stat("energy"))];
            let mut k = 0;
            for (name, v) in expect_stats {
                let cell = cells[k];
                k += 1;
                let ok = match v {
                    None => cell == "NA" || (name == "diverging" && cell == "0"),
                    Some(Value::ScalarF64(x)) => csv_cell_matches(cell, x, precision),
                    Some(Value::ScalarU64(x)) => cell == x.to_string(),
                    Some(Value::ScalarI64(x)) => cell == x.to_string(),
                    Some(Value::ScalarBool(b)) => cell == if b { "1" } else { "0" },
                    _ => true,
                };
                if !ok {
                    out.violate(format!("C14/csv/stat_cell/{name}"), format!("chain {c} row {ri}: cell {cell:?}, recorded {:?} (precision {precision})", stat(name)));
                    return;
                }
            }
            for (vname, _t) in &numeric {
                let v = rec.draws.iter().find(|(n, _)| n == vname).and_then(|(_, v)| v.clone());
                let flat: Vec<(f64, Option<String>)> = match v {
                    Some(Value::F64(x)) => x.iter().map(|a| (*a, None)).collect(),
                    Some(Value::F32(x)) => x.iter().map(|a| (*a as f64, None)).collect(),
                    Some(Value::I64(x)) => x.iter().map(|a| (0.0, Some(a.to_string()))).collect(),
                    Some(Value::U64(x)) => x.iter().map(|a| (0.0, Some(a.to_string()))).collect(),
                    Some(Value::ScalarF64(a)) => vec![(a, None)],
                    Some(Value::ScalarF32(a)) => vec![(a as f64, None)],
                    Some(Value::ScalarI64(a)) => vec![(0.0, Some(a.to_string()))],
                    Some(Value::ScalarU64(a)) => vec![(0.0, Some(a.to_string()))],
                    _ => vec![],
                };
                for (x, exact) in flat {
                    if k >= cells.len() {
                        out.violate("C14/csv/column_count", format!("chain {c} row {ri}: too few parameter cells"));
                        return;
                    }
                    let cell = cells[k];
                    k += 1;
                    let ok = match &exact {
                        Some(s) => cell == s,
                        None => csv_cell_matches(cell, x, precision),
                    };
                    if !ok {
                        out.violate(format!("C14/csv/parameter_cell/{vname}"), format!("chain {c} row {ri} column {k}: cell {cell:?}, recorded {:?}", exact.unwrap_or_else(|| format!("{x:e}"))));
                        return;
                    }
                }
            }
            if k != cells.len() {
                out.violate("C14/csv/column_count", format!("chain {c} row {ri}: {} cells, {} expected from the declared numeric variables", cells.len(), k));
                return;
            }
        }
        out.probe("csv_rows_checked", rows.len() as u64);
    }
}

thread_local! {
    static TOKIO_RT: std::cell::RefCell<Option<tokio::runtime::Runtime>> = const { std::cell::RefCell::new(None) };
}

fn run_zarr_async<S: Settings>(settings: &S, sc: &StoreScenario, h: &Histories, ops: &[Op], lens: &[usize], out: &mut RunOutcome) {
    use crate::asyncstore::AsyncDelayStore;
    let prop = sc.prop.as_str();
    // one small multi-thread runtime per run thread (the writer calls Handle::block_on from this thread)
    let rt = tokio::runtime::Builder::new_multi_thread().worker_threads(2).enable_time().build().unwrap_or_else(|e| crate::driver::harness_error(&format!("tokio runtime: {e}")));
    let store = Arc::new(AsyncDelayStore::new(sc.ops_seed, sc.fail_write, if prop == "C15" { 12 } else { 3 }));
    let cfg = nuts_rs::ZarrAsyncConfig::new(rt.handle().clone(), store.clone()).with_chunk_size(sc.chunk_size).store_warmup(sc.store_warmup);
    let hh = h;
    let st2 = store.clone();
    let flushed: std::cell::RefCell<Vec<usize>> = std::cell::RefCell::new(vec![0; lens.len()]);
    let flushed_ref = &flushed;
    let flush_count: std::cell::RefCell<u64> = std::cell::RefCell::new(0);
    let flush_count_ref = &flush_count;
    store.armed.store(false, std::sync::atomic::Ordering::SeqCst);
    store.keep_snapshots.store(sc.crash_every_write && prop == "C15", std::sync::atomic::Ordering::SeqCst);
    let acks: std::cell::RefCell<Vec<Vec<usize>>> = std::cell::RefCell::new(vec![]);
    let acks_ref = &acks;
    let arm = store.clone();
    let mut armed_once = false;
    let mut hooks = DriveHooks {
        on_flush: Box::new(move |c: usize, done: &[usize], out: &mut RunOutcome| {
            if prop != "C15" {
                return;
            }
            flushed_ref.borrow_mut()[c] = done[c];
            // what a fresh reader sees at the instant flush() returned
            let snap = snapshot_store(st2.inner.as_ref());
            let upto = flushed_ref.borrow().clone();
            acks_ref.borrow_mut().push(upto.clone());
            st2.acknowledge();
            let n_flush = { let mut k = flush_count_ref.borrow_mut(); *k += 1; *k };
            let only = [c];
            let chains: Option<&[usize]> = if n_flush % 3 == 0 { None } else { Some(&only) };
            zarr_checks("zarr_async", "C15", &format!("fresh reader after flush of chain {c} at draws {:?}", done), snap, hh, &upto, chains, sc, false, out);
            out.probe("async_flush_points_checked", 1);
        }),
        on_inspect: Box::new(|_f: (), _d: &[usize], _o: &mut RunOutcome| {}),
    };
    // delays and faults start after the trace has been created (metadata writes are not interesting)
    let _ = &mut armed_once;
    arm.armed.store(true, std::sync::atomic::Ordering::SeqCst);
    let end = drive(settings, sc, cfg, h, ops, &mut hooks, out);
    drop(hooks);
    let failed_write = store.failed.load(std::sync::atomic::Ordering::SeqCst);
    out.probe("async_store_writes", store.writes.load(std::sync::atomic::Ordering::SeqCst));
    out.probe("async_store_writes_delayed", store.delayed.load(std::sync::atomic::Ordering::SeqCst));
    if failed_write {
        out.probe("async_store_write_fault_fired", 1);
        match &end {
            DriveEnd::Panicked(m, site) => out.violate(format!("{prop}/zarr_async/panic_on_store_error/{site}"), m.chars().take(200).collect::<String>()),
            DriveEnd::Finalized(None, _) => out.violate(format!("{prop}/zarr_async/store_error_swallowed"), "a store write failed but every call returned Ok"),
            _ => {}
        }
        let upto = flushed.borrow().clone();
        if upto.iter().any(|n| *n > 0) {
            // let sleeping writes finish before looking (they may legitimately still be in flight after an error)
            std::thread::sleep(std::time::Duration::from_millis(40));
            let acked: Vec<usize> = (0..upto.len()).filter(|c| upto[*c] > 0).collect();
            zarr_checks("zarr_async", prop, "store after a failed write (acknowledged prefixes)", snapshot_store(store.inner.as_ref()), h, &upto, Some(&acked), sc, false, out);
        }
    } else {
        let bad = if prop == "C14" { end_violation("zarr_async", &end, out) } else { !matches!(end, DriveEnd::Finalized(None, _)) };
        if prop == "C15" {
            if let DriveEnd::Panicked(m, site) | DriveEnd::Failed(m, site) = &end {
                out.violate(format!("C15/zarr_async/call_failed/{site}"), m.chars().take(200).collect::<String>());
            }
        }
        if !bad && prop != "C13" {
            // right after finalize returned: everything must be in the store
            zarr_checks("zarr_async", prop, "fresh reader after finalize", snapshot_store(store.inner.as_ref()), h, lens, None, sc, prop == "C14", out);
        }
    }
    if sc.crash_every_write && prop == "C15" {
        // crash between two store writes (whatever order tokio completed them in): every snapshot must hold the
        // prefixes acknowledged by the flushes that had returned when that write reached the store
        let log = std::mem::take(&mut store.snap.lock().unwrap().log);
        let acks = acks.borrow();
        let is_eligible = |a: usize| a > 0 && a <= acks.len() && acks[a - 1].iter().any(|n| *n > 0);
        let n_eligible = log.iter().filter(|(a, _, _)| is_eligible(*a)).count();
        let stride = (n_eligible / 120).max(1);
        let off = (sc.ops_seed as usize) % stride;
        let replay = Arc::new(zarrs::storage::store::MemoryStore::new());
        let mut i = 0usize;
        for (a, k, rec) in log.iter() {
            crate::storesim::apply_write_rec(&replay, rec);
            if !is_eligible(*a) {
                continue;
            }
            i += 1;
            if (i - 1) % stride != off && i != n_eligible {
                continue;
            }
            let upto = &acks[*a - 1];
            let acked: Vec<usize> = (0..upto.len()).filter(|c| upto[*c] > 0).collect();
            let before = out.violations.len();
            zarr_checks("zarr_async", "C15", &format!("crash after store write {k} ({a} flushes had returned, acknowledged prefixes {:?})", upto), replay.clone(), h, upto, Some(&acked), sc, false, out);
            for v in out.violations[before..].iter_mut() {
                v.key = v.key.replacen("C15/zarr_async/", "C15/zarr_async/crash_between_writes/", 1);
            }
            out.probe("async_crash_points_between_store_writes_checked", 1);
            if out.violations.len() > before {
                break;
            }
        }
    }
    drop(rt);
}

impl Scenario for StoreScenario {
    fn run(&self) -> RunOutcome {
        if let (None, Some(k)) = (self.fail_write, self.fail_write_from_end) {
            // dry run without fault: count the store writes, then place the fault k writes before the end
            let mut dry = self.clone();
            dry.fail_write_from_end = None;
            let o = dry.run();
            let total = o.probes.iter().filter(|(n, _)| n.as_str() == "store_writes" || n.as_str() == "async_store_writes").map(|(_, v)| *v).sum::<u64>();
            let mut real = self.clone();
            real.fail_write_from_end = None;
            real.fail_write = Some(total.saturating_sub(1 + k));
            return real.run();
        }
        match &self.preset {
            Preset::DiagNuts(s) => run_store(*s, self),
            Preset::LowRankNuts(s) => run_store(*s, self),
            Preset::FlowNuts(s) => run_store(*s, self),
            Preset::DiagMclmc(s) => run_store(*s, self),
            Preset::LowRankMclmc(s) => run_store(*s, self),
            Preset::FlowMclmc(s) => run_store(*s, self),
        }
    }

    fn shrink(&self) -> Vec<Self> {
        let mut v = vec![];
        if self.backends.len() > 1 {
            for b in &self.backends {
                let mut s = self.clone();
                s.backends = vec![b.clone()];
                v.push(s);
            }
            return v;
        }
        for i in 0..self.density_faults.len() {
            let mut s = self.clone();
            s.density_faults.remove(i);
            v.push(s);
        }
        if self.vars.len() > 1 {
            for i in 0..self.vars.len() {
                let mut s = self.clone();
                s.vars.remove(i);
                v.push(s);
            }
        }
        let nc = crate::props_sched::num_chains(&self.preset);
        if nc > 1 {
            let mut s = self.clone();
            match &mut s.preset {
                Preset::DiagNuts(x) => x.num_chains = nc - 1,
                Preset::LowRankNuts(x) => x.num_chains = nc - 1,
                Preset::FlowNuts(x) => x.num_chains = nc - 1,
                Preset::DiagMclmc(x) => x.num_chains = nc - 1,
                Preset::LowRankMclmc(x) => x.num_chains = nc - 1,
                Preset::FlowMclmc(x) => x.num_chains = nc - 1,
            }
            v.push(s);
        }
        if self.flush_prob > 0.0 && self.prop == "C14" {
            let mut s = self.clone();
            s.flush_prob = 0.0;
            v.push(s);
        }
        if self.inspect_prob > 0.0 {
            let mut s = self.clone();
            s.inspect_prob = 0.0;
            v.push(s);
        }
        let (nt, nd) = (self.preset.num_tune(), self.preset.num_draws());
        if nd > 0 {
            let mut s = self.clone();
            s.preset.set_num_draws(nd / 2);
            v.push(s);
        }
        if nt > 1 {
            let mut s = self.clone();
            s.preset.set_num_tune(nt / 2);
            crate::checks::fix_early_window(&mut s.preset, nt / 2);
            v.push(s);
        }
        if self.prefix.is_some() {
            let mut s = self.clone();
            s.prefix = None;
            v.push(s);
        }
        v
    }

    fn describe(&self) -> J {
        json!({
            "preset": self.preset.name(), "num_chains": crate::props_sched::num_chains(&self.preset),
            "num_tune": self.preset.num_tune(), "num_draws": self.preset.num_draws(), "dim": self.target.dim(),
            "vars": self.vars.iter().map(|v| format!("{}:{:?}{:?}", v.name, v.ty, v.dims)).collect::<Vec<_>>(),
            "backends": self.backends.iter().map(|b| b.name()).collect::<Vec<_>>(),
            "chunk_size": self.chunk_size, "store_warmup": self.store_warmup, "prefix": self.prefix,
            "flush_prob": self.flush_prob, "inspect_prob": self.inspect_prob, "density_faults": self.density_faults.len(),
            "fail_write": self.fail_write,
            "fail_write_from_end": self.fail_write_from_end,
            "crash_every_write": self.crash_every_write,
        })
    }
}
