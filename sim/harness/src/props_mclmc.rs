//! C18 — MCLMC structural invariants, judged at the SimMath seam and on the recorded history.

use nuts_rs::MclmcTrajectoryKind;
use serde::{Deserialize, Serialize};
use serde_json::{Value as J, json};

use crate::chain::{CallResult, ChainCfg, Preset, run_chain};
use crate::driver::{RunOutcome, Scenario};
use crate::simmath::MathEvent;
use crate::swarm::shrink_chain_cfg;

#[derive(Clone, Debug, Serialize, Deserialize)]
pub struct MclmcScenario {
    pub cfg: ChainCfg,
}

struct Knobs {
    l: f64,
    f: f64,
    dynamic: bool,
    kind: MclmcTrajectoryKind,
    switch_draw: u64,
}

fn knobs(p: &Preset) -> Option<Knobs> {
    macro_rules! k {
        ($s:expr) => {
            Some(Knobs {
                l: $s.momentum_decoherence_length,
                f: $s.subsample_frequency,
                dynamic: $s.dynamic_step_size,
                kind: $s.trajectory_kind,
                switch_draw: ($s.trajectory_switch_fraction * $s.num_tune as f64) as u64,
            })
        };
    }
    match p {
        Preset::DiagMclmc(s) => k!(s),
        Preset::LowRankMclmc(s) => k!(s),
        Preset::FlowMclmc(s) => k!(s),
        _ => None,
    }
}

fn norm(v: &[f64]) -> f64 {
    v.iter().map(|x| x * x).sum::<f64>().sqrt()
}

/// closed-form ESH update (Steeg & Gallagher 2021), written from the formula in the Math trait's
/// documentation, in plain scalar arithmetic
pub fn ref_esh(grad: &[f64], mom: &[f64], step: f64) -> (Vec<f64>, f64, f64, f64) {
    let n = grad.len() as f64;
    let gnorm = norm(grad);
    let ghat: Vec<f64> = grad.iter().map(|g| g / gnorm).collect();
    let alpha: f64 = mom.iter().zip(&ghat).map(|(p, g)| p * g).sum();
    let delta = step * gnorm / (n - 1.0);
    let zeta = (-delta).exp();
    let cg = (1.0 - zeta) * (1.0 + zeta + alpha * (1.0 - zeta));
    let raw: Vec<f64> = mom.iter().zip(&ghat).map(|(p, g)| cg * g + 2.0 * zeta * p).collect();
    let rn = norm(&raw);
    let out: Vec<f64> = raw.iter().map(|x| x / rn).collect();
    let arg = alpha + (1.0 - alpha) * zeta * zeta;
    let dke = (delta - std::f64::consts::LN_2 + arg.ln_1p()) * (n - 1.0);
    // log(1 + arg) is ill-conditioned when arg is close to -1 (momentum anti-parallel to the gradient):
    // the rounding of alpha (a dot product) is amplified by 1/(1 + arg)
    (out, dke, 1.0 + arg, rn)
}

impl Scenario for MclmcScenario {
    fn run(&self) -> RunOutcome {
        let mut cfg = self.cfg.clone();
        cfg.keep_evals = true;
        cfg.observe_math = true;
        let h = run_chain(&cfg);
        let mut out = RunOutcome { digest: h.digest(), sim_draws: h.draws.len() as u64, sim_evals: h.n_evals, ..Default::default() };
        let pname = cfg.preset.name();
        out.probe(&format!("preset_{pname}"), 1);
        let Some(k) = knobs(&cfg.preset) else { return out };
        if let CallResult::Panic(m) = &h.new_chain {
            out.violate(format!("C18/panic/new_chain/{pname}"), m.chars().take(200).collect::<String>());
            return out;
        }
        if let CallResult::Panic(m) = &h.set_position {
            out.violate(format!("C18/panic/set_position/{pname}"), m.chars().take(200).collect::<String>());
            return out;
        }
        if let Some((i, CallResult::Panic(m), _)) = &h.failed_call {
            out.violate(format!("C18/panic/draw/{pname}"), format!("draw {i}: {}", m.chars().take(300).collect::<String>()));
        }
        if h.set_position != CallResult::Ok {
            return out;
        }
        // (a)+(b): every ESH update and every normalisation seen at the seam
        let mut n_esh = 0u64;
        for e in &h.math_events {
            match e {
                MathEvent::Esh { grad, mom_in, step, mom_out, ret, .. } => {
                    n_esh += 1;
                    let gn = norm(grad);
                    // a momentum that enters an update is the result of an accepted step or of a refresh: it is
                    // never NaN / inf (a step that produced one is a divergence and its state is discarded)
                    if mom_in.iter().any(|x| !x.is_finite()) {
                        out.violate(format!("C18/momentum_not_finite_before_esh/{pname}"), format!("an ESH update was entered with momentum {:?}", mom_in.iter().take(6).collect::<Vec<_>>()));
                        return out;
                    }
                    let inputs_ok = gn.is_finite() && gn > 0.0 && step.is_finite();
                    if !inputs_ok {
                        out.probe("esh_with_degenerate_inputs_skipped", 1);
                        continue;
                    }
                    if (norm(mom_in) - 1.0).abs() > 1e-9 {
                        out.violate(format!("C18/momentum_not_unit_before_esh/{pname}"), format!("|p| = {:e} entering an ESH update", norm(mom_in)));
                        return out;
                    }
                    let (rm, rk, cond, raw_norm) = ref_esh(grad, mom_in, *step);
                    // the renormalisation divides by |p_raw|, which is small when the momentum is nearly
                    // anti-parallel to the gradient: rounding is amplified by 1/|p_raw|
                    let tol_m = 1e-8 + 1e-12 / raw_norm.max(1e-300);
                    if cond.abs() < 1e-9 || raw_norm < 1e-9 || !rk.is_finite() {
                        // momentum (numerically) exactly anti-parallel to the gradient with a huge step:
                        // the closed form itself is singular there (0/0 in the renormalisation); skipped and
                        // counted as a near-tie - also for the unit-norm demand, which has no meaning there
                        out.probe("esh_near_singular_skipped", 1);
                        continue;
                    }
                    let on = norm(mom_out);
                    if (on - 1.0).abs() > 1e-12 {
                        out.violate(format!("C18/momentum_not_unit_after_esh/{pname}"), format!("|p'| = {on:e} after an ESH update (|g| {gn:e}, step {step:e})"));
                        return out;
                    }
                    let dm = rm.iter().zip(mom_out).map(|(a, b)| (a - b).abs()).fold(0.0, f64::max);
                    let tol_k = 1e-9 * (1.0 + rk.abs()) * (grad.len() as f64) + 1e-12 * (grad.len() as f64) / cond.abs().max(1e-300);
                    if dm > tol_m || (rk - ret).abs() > tol_k {
                        out.violate(
                            format!("C18/esh_update_differs_from_closed_form/{pname}"),
                            format!("step {step:e}, |g| {gn:e}: momentum differs by {dm:e}; returned dKE {ret:e}, closed form {rk:e}"),
                        );
                        return out;
                    }
                }
                MathEvent::Normalize { input, output, .. } => {
                    let inn = norm(input);
                    if inn.is_finite() && inn > 1e-300 {
                        let on = norm(output);
                        if (on - 1.0).abs() > 1e-12 {
                            out.violate(format!("C18/momentum_not_unit_after_refresh/{pname}"), format!("|p| = {on:e} after normalisation of a vector of norm {inn:e}"));
                            return out;
                        }
                    }
                }
                _ => {}
            }
        }
        out.probe("esh_updates_checked", n_esh);
        // history oracles
        let mut first_esh_draw: Option<usize> = None;
        for (i, d) in h.draws.iter().enumerate() {
            let evs = &h.math_events[d.math.0..d.math.1];
            let n_gauss = evs.iter().filter(|e| matches!(e, MathEvent::Gaussian { .. })).count() as u64;
            let has_esh = evs.iter().any(|e| matches!(e, MathEvent::Esh { .. }));
            if has_esh && first_esh_draw.is_none() {
                first_esh_draw = Some(i);
            }
            let eps = d.progress.step_size;
            let n_expected = {
                let x = (k.f * k.l / eps).round().max(1.0).min(1e6);
                x as u64
            };
            let steps = d.u64("num_steps").unwrap_or(0);
            let evals = d.evals.1 - d.evals.0;
            let diverging = d.progress.diverging;
            if d.progress.num_steps != steps {
                out.violate(format!("C18/progress_num_steps/{pname}"), format!("draw {i}: Progress.num_steps {} vs statistic {steps}", d.progress.num_steps));
                return out;
            }
            if !diverging {
                let retried = evals > steps;
                if !retried && steps != n_expected {
                    out.violate(
                        format!("C18/step_count/{pname}"),
                        format!("draw {i}: {steps} steps without retry, expected max(1, round({}*{}/{eps:e})) = {n_expected}", k.f, k.l),
                    );
                    return out;
                }
                if retried {
                    out.probe("draws_with_step_size_retry", 1);
                    if !k.dynamic {
                        out.violate(format!("C18/retry_without_dynamic_step_size/{pname}"), format!("draw {i}: {evals} evaluations for {steps} steps"));
                        return out;
                    }
                    if steps < n_expected {
                        out.violate(format!("C18/fewer_steps_than_required/{pname}"), format!("draw {i}: {steps} steps (with retries), at least {n_expected} full-size steps' worth required"));
                        return out;
                    }
                }
                // total integration time: the steps taken (full-size or halved) add up to N * eps
                if let Some(avg) = d.f64("average_step_size") {
                    let total = avg * steps as f64;
                    let want = n_expected as f64 * eps;
                    if (total - want).abs() > 1e-9 * want.abs().max(1e-300) {
                        out.violate(
                            format!("C18/trajectory_length/{pname}"),
                            format!("draw {i}: non-divergent draw integrated {total:e} (= {steps} steps x average {avg:e}) instead of N*eps = {n_expected} x {eps:e} = {want:e}"),
                        );
                        return out;
                    }
                }
            } else {
                out.probe("divergent_draws", 1);
                let prev = if i == 0 { cfg.init.clone() } else { h.draws[i - 1].pos.clone() };
                if prev.iter().map(|x| x.to_bits()).ne(d.pos.iter().map(|x| x.to_bits())) {
                    out.violate(format!("C18/divergent_draw_moved/{pname}"), format!("draw {i}: position {:?}, previous {:?}", d.pos, prev));
                    return out;
                }
            }
            // momentum/noise draws: one before the steps, two per successful step, one full refresh
            // after a divergence, one at the Euclidean -> microcanonical switch
            let switch_here = k.kind == MclmcTrajectoryKind::EuclideanEarlyThenMicrocanonical && i as u64 == k.switch_draw;
            let expected_gauss = 1 + 2 * steps + if diverging { 1 } else { 0 } + if switch_here { 1 } else { 0 };
            if h.failed_call.is_none() || i + 1 < h.draws.len() {
                if n_gauss != expected_gauss {
                    out.violate(
                        format!("C18/momentum_refresh_count/{pname}"),
                        format!("draw {i}: {n_gauss} Gaussian draws at the seam, expected {expected_gauss} (1 + 2x{steps} steps{}{})", if diverging { " + full refresh after the divergence" } else { "" }, if switch_here { " + fresh momentum at the switch" } else { "" }),
                    );
                    return out;
                }
            }
            if switch_here && steps > 0 {
                // fresh normalised momentum before the first ESH update of this draw
                let first_esh = evs.iter().position(|e| matches!(e, MathEvent::Esh { .. }));
                let first_norm = evs.iter().position(|e| matches!(e, MathEvent::Normalize { .. }));
                if let Some(fe) = first_esh {
                    if first_norm.map(|n| n > fe).unwrap_or(true) {
                        out.violate(format!("C18/switch_without_fresh_momentum/{pname}"), format!("draw {i}: first ESH update precedes any normalised fresh momentum"));
                        return out;
                    }
                    out.probe("switch_draws_checked", 1);
                }
            }
            // which integrator runs on which draw
            let expect_esh = match k.kind {
                MclmcTrajectoryKind::Microcanonical => true,
                MclmcTrajectoryKind::Euclidean => false,
                MclmcTrajectoryKind::EuclideanEarlyThenMicrocanonical => i as u64 >= k.switch_draw,
            };
            if evals > 0 && has_esh != expect_esh {
                out.violate(
                    format!("C18/trajectory_kind_switch/{pname}"),
                    format!("draw {i}: ESH updates {} but kind {:?} with switch at draw {}", if has_esh { "present" } else { "absent" }, k.kind, k.switch_draw),
                );
                return out;
            }
        }
        out.nontrivial = n_esh > 0 && h.draws.len() > 1;
        out
    }

    fn shrink(&self) -> Vec<Self> {
        shrink_chain_cfg(&self.cfg).into_iter().map(|cfg| MclmcScenario { cfg }).collect()
    }

    fn describe(&self) -> J {
        json!({"preset": self.cfg.preset.name(), "num_tune": self.cfg.preset.num_tune(), "num_draws": self.cfg.preset.num_draws(), "dim": self.cfg.target.dim(),
               "target": format!("{:?}", self.cfg.target).chars().take(120).collect::<String>(), "faults": self.cfg.faults, "settings": serde_json::to_value(&self.cfg.preset).unwrap_or(J::Null)})
    }
}
