//! nutsim — deterministic simulation with fault injection for nuts-rs.
//!
//! usage: nutsim check <Cnn> [--tier quick|thorough] [--seed N]
//!        nutsim replay <file>
//!        nutsim selfcheck [--n N]
//! exit codes: 0 property held on everything explored; 1 violation (VIOLATION line printed);
//!             2 harness error (never reported as a violation)

mod asyncstore;
mod chain;
mod checks;
mod density;
mod driver;
mod entropy;
mod gen_sched;
mod prng;
mod props_adapt;
mod props_c01;
mod props_chain;
mod props_fault;
mod props_mclmc;
mod props_leapfrog_real;
mod props_posterior;
mod props_sched;
mod props_stationary;
mod refnuts;
mod props_sched_adapt;
mod sched;
mod simmath;
mod storesim;
mod swarm;

use driver::{Tier, harness_error};

fn main() {
    // anyhow captures a backtrace at every error creation when RUST_BACKTRACE is set: slow, and it would
    // make error texts depend on the environment
    unsafe {
        std::env::set_var("RUST_BACKTRACE", "0");
        std::env::set_var("RUST_LIB_BACKTRACE", "0");
    }
    driver::install_panic_hook();
    // The sampler's own pool is the simulator's stand-in. Anything else in the repository that hands work
    // to rayon lands in rayon's global pool, which is not under the scheduler; it is kept small (3 threads)
    // so that such work is split into uneven, stealable pieces - the situation of a chain running on the
    // sampler's (num_cores + 1)-thread pool - and shows up as a difference between runs (C10).
    let _ = rayon::ThreadPoolBuilder::new().num_threads(3).build_global();
    let args: Vec<String> = std::env::args().collect();
    if args.len() < 2 {
        harness_error("usage: nutsim check <Cnn> [--tier quick|thorough] [--seed N] | replay <file> | selfcheck");
    }
    let mut tier = match std::env::var("VERIF_TIER").as_deref() {
        Ok("thorough") => Tier::Thorough,
        _ => Tier::Quick,
    };
    let mut seed: u64 = std::env::var("VERIF_SEED").ok().and_then(|s| s.parse().ok()).unwrap_or(20260925);
    let mut n_opt: Option<u64> = None;
    let mut pos = vec![];
    let mut i = 2;
    while i < args.len() {
        match args[i].as_str() {
            "--tier" => {
                i += 1;
                tier = match args.get(i).map(|s| s.as_str()) {
                    Some("quick") => Tier::Quick,
                    Some("thorough") => Tier::Thorough,
                    _ => harness_error("--tier quick|thorough"),
                };
            }
            "--seed" => {
                i += 1;
                seed = args.get(i).and_then(|s| s.parse().ok()).unwrap_or_else(|| harness_error("--seed N"));
            }
            "--n" => {
                i += 1;
                n_opt = args.get(i).and_then(|s| s.parse().ok());
            }
            other => pos.push(other.to_string()),
        }
        i += 1;
    }
    let code = match args[1].as_str() {
        "check" => {
            let prop = pos.first().unwrap_or_else(|| harness_error("check <Cnn>")).clone();
            println!("VERIF_SEED={seed} tier={} property={prop}", tier.name());
            checks::run_check(&prop, tier, seed)
        }
        "replay" => {
            let file = pos.first().unwrap_or_else(|| harness_error("replay <file>"));
            let text = std::fs::read_to_string(file).unwrap_or_else(|e| harness_error(&format!("cannot read {file}: {e}")));
            let doc: serde_json::Value = serde_json::from_str(&text).unwrap_or_else(|e| harness_error(&format!("bad replay file: {e}")));
            checks::replay(&doc)
        }
        "selfcheck" => checks::selfcheck(seed, n_opt.unwrap_or(64)),
        "dump" => {
            // debugging aid: print the recorded history of the chain configuration inside a replay file
            let file = pos.first().unwrap_or_else(|| harness_error("dump <file>"));
            let text = std::fs::read_to_string(file).unwrap_or_else(|e| harness_error(&format!("cannot read {file}: {e}")));
            let doc: serde_json::Value = serde_json::from_str(&text).unwrap_or_else(|e| harness_error(&format!("bad replay file: {e}")));
            let mut cfg: chain::ChainCfg = serde_json::from_value(doc["scenario"]["cfg"].clone()).unwrap_or_else(|e| harness_error(&format!("no chain cfg in scenario: {e}")));
            cfg.keep_evals = true;
            cfg.observe_math = true;
            let h = chain::run_chain(&cfg);
            println!("new_chain {:?} set_position {:?} evals {:?}", h.new_chain, h.set_position, h.set_position_evals);
            for e in &h.evals {
                println!("  eval {} pos {:?} logp {:e} fault {:?} err {}", e.index, e.pos, e.logp, e.fault, e.returned_err);
            }
            for (i, d) in h.draws.iter().enumerate() {
                println!("draw {i}: evals {:?} pos {:?} div {} steps {} step_size {:e} tap {}", d.evals, d.pos, d.progress.diverging, d.progress.num_steps, d.progress.step_size, d.tap.len());
                for (n, v) in &d.stats {
                    if let Some(v) = v {
                        println!("      {n} = {:?}", v);
                    }
                }
            }
            println!("failed {:?}", h.failed_call);
            0
        }
        other => harness_error(&format!("unknown command {other}")),
    };
    std::process::exit(code);
}
