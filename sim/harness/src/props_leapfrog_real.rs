//! C02 on real histories: the states the integrator produces *inside running chains* (all presets, with
//! adaptation, divergences and - for MCLMC - dynamic step-size retries) are audited through the trajectory
//! tap (hook H3). The direct-drive batch of C02 drives `leapfrog` with a step-size factor of 1 from a fresh
//! state; this batch sees what only a history produces: a factor that changes between consecutive steps, a
//! start state that survived a transformation update, a retry that starts again from the state before the
//! failed step.
//!
//! Oracles (all in whitened coordinates, so no knowledge of the transformation is needed):
//!  * every state a leapfrog produced is the textbook image (half kick, drift, half kick with ONE step size, the
//!    one reported for that leapfrog) of an earlier state of the same trajectory segment;
//!  * all states of a segment, the start state included, are related to their whitened coordinates by one affine
//!    map (`refnuts::affine_consistency`), and carry the same log-determinant.
//! MCLMC runs of this batch use a momentum decoherence length of 1e300 (partial refresh below rounding; the
//! subsample frequency is scaled so that the number of steps per draw is unchanged), so that the
//! velocity a step starts from is the velocity the tap reported for the previous state.

use serde::{Deserialize, Serialize};
use serde_json::{Value as J, json};

use nuts_rs::verif::TapState;
use nuts_rs::{KineticEnergyKind, MclmcTrajectoryKind};

use crate::chain::{CallResult, ChainCfg, Preset, run_chain};
use crate::driver::{RunOutcome, Scenario};

#[derive(Clone, Debug, Serialize, Deserialize)]
pub struct RealLeapfrogScenario {
    pub cfg: ChainCfg,
}

fn scale_of(v: &[f64]) -> f64 {
    v.iter().fold(0.0f64, |a, x| a.max(x.abs()))
}

fn finite(t: &TapState) -> bool {
    t.y.iter().chain(&t.v).chain(&t.gy).all(|z| z.is_finite())
}

/// Some(true/false): `e` is / is not the image of `s`; None: the comparison is ill-conditioned (skipped)
fn is_image(kind: KineticEnergyKind, s: &TapState, e: &TapState) -> Option<bool> {
    let n = s.y.len();
    let eps = e.epsilon;
    if e.y.len() != n || e.v.len() != n || s.v.len() != n || s.gy.len() != n || e.gy.len() != n || !(eps != 0.0) {
        return Some(false);
    }
    match kind {
        KineticEnergyKind::Euclidean => {
            let kick = 0.5 * eps.abs() * (scale_of(&s.gy) + scale_of(&e.gy));
            for i in 0..n {
                let vh = s.v[i] + 0.5 * eps * s.gy[i];
                let y1 = s.y[i] + eps * vh;
                let tol_y = 1e-8 * (1.0 + scale_of(&e.y) + scale_of(&s.y) + eps.abs() * (scale_of(&s.v) + kick));
                if (y1 - e.y[i]).abs() > tol_y {
                    return Some(false);
                }
                let v1 = vh + 0.5 * eps * e.gy[i];
                if (v1 - e.v[i]).abs() > 1e-8 * (1.0 + scale_of(&e.v) + scale_of(&s.v) + kick) {
                    return Some(false);
                }
            }
            Some(true)
        }
        KineticEnergyKind::ExactNormal => {
            let (sn, cs) = eps.sin_cos();
            let kick = (0..n).map(|i| (0.5 * eps * (s.y[i] + s.gy[i])).abs()).fold(0.0, f64::max) + (0..n).map(|i| (0.5 * eps * (e.y[i] + e.gy[i])).abs()).fold(0.0, f64::max);
            for i in 0..n {
                let vh = s.v[i] + 0.5 * eps * (s.y[i] + s.gy[i]);
                let y1 = s.y[i] * cs + vh * sn;
                let vr = -s.y[i] * sn + vh * cs;
                if (y1 - e.y[i]).abs() > 1e-8 * (1.0 + scale_of(&e.y) + scale_of(&s.y) + scale_of(&s.v) + kick) {
                    return Some(false);
                }
                let v1 = vr + 0.5 * eps * (e.y[i] + e.gy[i]);
                if (v1 - e.v[i]).abs() > 1e-8 * (1.0 + scale_of(&e.v) + scale_of(&s.y) + scale_of(&s.v) + kick) {
                    return Some(false);
                }
            }
            Some(true)
        }
        KineticEnergyKind::Microcanonical => {
            if n < 2 {
                return None;
            }
            let sd = (n as f64).sqrt();
            let gn = s.gy.iter().map(|g| g * g).sum::<f64>().sqrt();
            let gn1 = e.gy.iter().map(|g| g * g).sum::<f64>().sqrt();
            if !(gn > 1e-12 && gn1 > 1e-12) {
                return None;
            }
            // conditioning of the closed form (see C02's direct-drive batch): large kicks are not resolved
            let dmax = sd * eps.abs() / 2.0 * gn.max(gn1) / (n as f64 - 1.0);
            if !(dmax <= 5.0) {
                return None;
            }
            let (v_h, _, cond1, _) = crate::props_mclmc::ref_esh(&s.gy, &s.v, sd * eps / 2.0);
            let (v1, _, cond2, _) = crate::props_mclmc::ref_esh(&e.gy, &v_h, sd * eps / 2.0);
            if cond1.abs() < 1e-6 || cond2.abs() < 1e-6 {
                return None;
            }
            for i in 0..n {
                let y1 = s.y[i] + eps * sd * v_h[i];
                if (y1 - e.y[i]).abs() > 1e-8 * (1.0 + scale_of(&e.y) + scale_of(&s.y) + (eps * sd).abs()) {
                    return Some(false);
                }
                if (v1[i] - e.v[i]).abs() > 1e-7 / cond1.abs().min(cond2.abs()).min(1.0) {
                    return Some(false);
                }
            }
            Some(true)
        }
    }
}

/// Audit one tap (the states of one `draw` / `set_position` call). `kinds`: the kinetic energies the preset can use.
pub fn audit_tap(tap: &[TapState], kinds: &[KineticEnergyKind], what: &str, pname: &str, out: &mut RunOutcome) -> bool {
    for seg in crate::refnuts::split_trajectories(tap) {
        match crate::refnuts::affine_consistency(seg) {
            Ok(k) => out.probe("affine_identities_checked", k),
            Err(msg) => {
                out.violate(format!("C02/whitened_coordinates_inconsistent_within_trajectory/{pname}"), format!("{what}: {msg}"));
                return false;
            }
        }
        for (pos, e) in seg.iter().enumerate().skip(1) {
            if e.failed || e.start || !finite(e) {
                continue;
            }
            if e.epsilon != seg[pos - 1].epsilon && seg[pos - 1].epsilon != 0.0 && e.epsilon.abs() != seg[pos - 1].epsilon.abs() {
                out.probe("step_size_changed_between_consecutive_leapfrogs", 1);
            }
            let mut matched = false;
            let mut skipped = false;
            'cand: for s in seg[..pos].iter().rev() {
                if s.failed || !finite(s) {
                    continue;
                }
                for k in kinds {
                    match is_image(*k, s, e) {
                        Some(true) => {
                            matched = true;
                            break 'cand;
                        }
                        None => skipped = true,
                        Some(false) => {}
                    }
                }
            }
            if matched {
                out.probe("leapfrog_images_confirmed", 1);
            } else if skipped {
                out.probe("ill_conditioned_comparisons_skipped", 1);
            } else {
                out.violate(
                    format!("C02/state_not_a_leapfrog_image_of_an_earlier_state/{pname}"),
                    format!(
                        "{what}: state with index {} (tap position {pos}, step size {:e}, divergent {}) is not the half-kick / drift / half-kick image, with that one step size, of any earlier state of its trajectory: y = {:?}, v = {:?}; previous tap state: index {}, y = {:?}, v = {:?}, g_y = {:?}, step size {:e}",
                        e.index, e.epsilon, e.divergent, e.y, e.v, seg[pos - 1].index, seg[pos - 1].y, seg[pos - 1].v, seg[pos - 1].gy, seg[pos - 1].epsilon
                    ),
                );
                return false;
            }
        }
    }
    true
}

pub fn kinds_of(p: &Preset) -> Vec<KineticEnergyKind> {
    fn m(k: MclmcTrajectoryKind) -> Vec<KineticEnergyKind> {
        match k {
            MclmcTrajectoryKind::Euclidean => vec![KineticEnergyKind::Euclidean],
            MclmcTrajectoryKind::Microcanonical => vec![KineticEnergyKind::Microcanonical],
            _ => vec![KineticEnergyKind::Euclidean, KineticEnergyKind::Microcanonical],
        }
    }
    match p {
        Preset::DiagNuts(s) => vec![s.trajectory_kind],
        Preset::LowRankNuts(s) => vec![s.trajectory_kind],
        Preset::FlowNuts(s) => vec![s.trajectory_kind],
        Preset::DiagMclmc(s) => m(s.trajectory_kind),
        Preset::LowRankMclmc(s) => m(s.trajectory_kind),
        Preset::FlowMclmc(s) => m(s.trajectory_kind),
    }
}

impl Scenario for RealLeapfrogScenario {
    fn run(&self) -> RunOutcome {
        let mut cfg = self.cfg.clone();
        cfg.observe_math = true;
        let h = run_chain(&cfg);
        let pname = cfg.preset.name();
        let mut out = RunOutcome { digest: h.digest(), sim_draws: h.draws.len() as u64, sim_evals: h.n_evals, ..Default::default() };
        out.probe(&format!("preset_{pname}"), 1);
        if h.budget_exhausted || matches!(h.new_chain, CallResult::Panic(_)) {
            out.probe("run_not_judged", 1);
            return out;
        }
        let kinds = kinds_of(&cfg.preset);
        if !audit_tap(&h.init_tap, &kinds, "set_position", &pname, &mut out) {
            return out;
        }
        for (i, d) in h.draws.iter().enumerate() {
            if !audit_tap(&d.tap, &kinds, &format!("draw {i}"), &pname, &mut out) {
                return out;
            }
            if d.progress.diverging {
                out.probe("divergent_draws", 1);
            }
        }
        if !audit_tap(&h.failed_tap, &kinds, "failed call", &pname, &mut out) {
            return out;
        }
        out.probe("faults_fired", h.faults_fired.len() as u64);
        out.nontrivial = h.draws.iter().any(|d| d.tap.len() > 2);
        out
    }
    fn shrink(&self) -> Vec<Self> {
        crate::swarm::shrink_chain_cfg(&self.cfg).into_iter().map(|cfg| RealLeapfrogScenario { cfg }).collect()
    }
    fn describe(&self) -> J {
        json!({"preset": self.cfg.preset.name(), "num_tune": self.cfg.preset.num_tune(), "num_draws": self.cfg.preset.num_draws(), "dim": self.cfg.target.dim(),
               "target": format!("{:?}", self.cfg.target).chars().take(120).collect::<String>(), "faults": self.cfg.faults, "settings": serde_json::to_value(&self.cfg.preset).unwrap_or(J::Null)})
    }
}
