//! Stationarity (invariance) oracle for one NUTS transition with a fixed transformation and step size
//! (C01: a reversible kernel leaves the target invariant; C04: posteriors are reproduced, with no
//! assumption about mixing).
//!
//! N independent particles start from exact i.i.d. draws of the target, each makes `k` transitions of the
//! real `nuts::draw` (direct drive, hook H3) with its own seeded random stream. If the kernel leaves the
//! target invariant, the particles after k transitions are again exact i.i.d. draws, *whatever* the step
//! size, depth, transformation or mixing speed. Their empirical distribution is compared with an
//! independent i.i.d. reference sample: per coordinate, for the log density and for the squared radius,
//! the fraction below the reference's 5/25/50/75/95% quantiles is binomial, so the z statistics are exact
//! up to the normal approximation.

use nuts_rs::verif::VerifNutsOptions;
use nuts_rs::{CpuMath, KineticEnergyKind};
use serde::{Deserialize, Serialize};
use serde_json::{Value as J, json};

use crate::density::{SimDensity, Target, new_log};
use crate::driver::{RunOutcome, Scenario};
use crate::prng::{Digest, Prng, RandAdapter, splitmix64};
use crate::props_c01::TransformSpec;

#[derive(Clone, Debug, Serialize, Deserialize)]
pub struct StationaryScenario {
    pub prop: String,
    pub target: Target,
    pub transform: TransformSpec,
    pub exact_normal: bool,
    pub step_size: f64,
    pub maxdepth: u64,
    pub mindepth: u64,
    pub extra_doublings: u64,
    pub n_particles: u64,
    pub k: u64,
    pub seed: u64,
    /// energy-conserving orbits (ExactNormal on a standard normal with the identity transformation): every state
    /// of a trajectory has the same weight up to rounding, so inside the sub-tree added by the last accepted
    /// doubling the selected state lies in the newer half with probability 1/2 (uniform multinomial selection)
    #[serde(default)]
    pub equal_weight_selection: bool,
}

/// Cholesky factor (lower, row-major) of a symmetric positive definite matrix
fn cholesky(a: &[f64], n: usize) -> Option<Vec<f64>> {
    let mut l = vec![0.0; n * n];
    for i in 0..n {
        for j in 0..=i {
            let mut s = a[i * n + j];
            for k in 0..j {
                s -= l[i * n + k] * l[j * n + k];
            }
            if i == j {
                if !(s > 0.0) {
                    return None;
                }
                l[i * n + i] = s.sqrt();
            } else {
                l[i * n + j] = s / l[j * n + j];
            }
        }
    }
    Some(l)
}

/// exact i.i.d. draw of the target (None: no direct sampler)
pub fn iid_sample(t: &Target, r: &mut Prng) -> Option<Vec<f64>> {
    match t {
        Target::DiagNormal { mu, sigma } => Some((0..mu.len()).map(|i| mu[i] + sigma[i] * r.normal()).collect()),
        Target::DenseNormal { mu, prec } => {
            // P = L L^T; x = mu + L^-T z has covariance P^-1
            let n = mu.len();
            let l = cholesky(prec, n)?;
            let z: Vec<f64> = (0..n).map(|_| r.normal()).collect();
            let mut x = vec![0.0; n];
            for i in (0..n).rev() {
                let mut s = z[i];
                for j in i + 1..n {
                    s -= l[j * n + i] * x[j];
                }
                x[i] = s / l[i * n + i];
            }
            Some((0..n).map(|i| mu[i] + x[i]).collect())
        }
        Target::StudentT { nu, mu, scale } => {
            let k = *nu as u64;
            if (k as f64 - nu).abs() > 1e-12 {
                return None;
            }
            Some(
                (0..mu.len())
                    .map(|i| {
                        let z = r.normal();
                        let chi2: f64 = (0..k)
                            .map(|_| {
                                let g = r.normal();
                                g * g
                            })
                            .sum();
                        mu[i] + scale[i] * z / (chi2 / *nu).sqrt()
                    })
                    .collect(),
            )
        }
        Target::LogGamma { a } => {
            let mut v = vec![];
            for ai in a {
                let k = *ai as u64;
                if (k as f64 - ai).abs() > 1e-12 {
                    return None;
                }
                let g: f64 = (0..k).map(|_| -(1.0 - r.f64()).ln()).sum();
                v.push(g.ln());
            }
            Some(v)
        }
        Target::Funnel { dim } => {
            let v = 3.0 * r.normal();
            let mut x = vec![v];
            for _ in 1..*dim {
                x.push((0.5 * v).exp() * r.normal());
            }
            Some(x)
        }
        Target::Banana { dim, b } => {
            let x0 = r.normal();
            let mut x = vec![x0];
            if *dim > 1 {
                x.push(b * x0 * x0 + r.normal());
            }
            for _ in 2..*dim {
                x.push(r.normal());
            }
            Some(x)
        }
        _ => None,
    }
}

const PROBS: [f64; 5] = [0.05, 0.25, 0.5, 0.75, 0.95];

/// test functions: every coordinate, the log density, the squared distance from the first draw's centre
fn features(t: &Target, x: &[f64]) -> Vec<f64> {
    let mut g = vec![0.0; x.len()];
    let lp = t.logp(x, &mut g);
    let mut f = x.to_vec();
    f.push(lp);
    f
}

impl Scenario for StationaryScenario {
    fn run(&self) -> RunOutcome {
        let mut out = RunOutcome::default();
        let d = self.target.dim();
        let n = self.n_particles as usize;
        let kind = if self.exact_normal { KineticEnergyKind::ExactNormal } else { KineticEnergyKind::Euclidean };
        let kname = if self.exact_normal { "exact_normal" } else { "euclidean" };
        let tname = match &self.transform {
            TransformSpec::Diag { .. } => "diag",
            TransformSpec::LowRank { .. } => "lowrank",
        };
        // reference sample (independent stream), 4 x the particles
        let m = 4 * n;
        let mut rr = Prng::new(splitmix64(self.seed ^ 0x5EED_0001));
        let nf = d + 1;
        let mut ref_cols: Vec<Vec<f64>> = vec![Vec::with_capacity(m); nf];
        for _ in 0..m {
            let Some(x) = iid_sample(&self.target, &mut rr) else {
                crate::driver::harness_error("StationaryScenario: target without a direct sampler");
            };
            for (c, v) in ref_cols.iter_mut().zip(features(&self.target, &x)) {
                c.push(v);
            }
        }
        let mut quant: Vec<[f64; 5]> = vec![];
        for c in ref_cols.iter_mut() {
            c.sort_by(|a, b| a.partial_cmp(b).unwrap());
            let mut q = [0.0; 5];
            for k in 0..5 {
                q[k] = c[((PROBS[k] * m as f64) as usize).min(m - 1)];
            }
            quant.push(q);
        }
        // particles
        let log = new_log(false);
        let density = SimDensity::new(self.target.clone(), vec![], log.clone());
        let mut math = CpuMath::new(density);
        let opts = VerifNutsOptions { maxdepth: self.maxdepth, mindepth: self.mindepth, check_turning: true, extra_doublings: self.extra_doublings, max_energy_error: 1000.0, target_integration_time: None };
        let vt = self.transform.to_verif();
        let mut below = vec![[0u64; 5]; nf];
        let mut below0 = vec![[0u64; 5]; nf];
        let mut dg = Digest::new();
        let mut n_div = 0u64;
        let mut n_moved = 0u64;
        let mut depth_sum = 0u64;
        let mut n_maxdepth = 0u64;
        let mut r0 = Prng::new(splitmix64(self.seed ^ 0x5EED_0002));
        let (mut sel_trials, mut sel_newer, mut sel_outside_last_half) = (0u64, 0u64, 0u64);
        for p in 0..n {
            let mut x = iid_sample(&self.target, &mut r0).unwrap();
            for (fi, v) in features(&self.target, &x).iter().enumerate() {
                for k in 0..5 {
                    if *v <= quant[fi][k] {
                        below0[fi][k] += 1;
                    }
                }
            }
            let mut rng = RandAdapter(Prng::new(splitmix64(self.seed ^ (p as u64).wrapping_mul(0x9E3779B97F4A7C15))));
            for _ in 0..self.k {
                if self.equal_weight_selection {
                    nuts_rs::verif::tap_enable();
                }
                let res = nuts_rs::verif::nuts_draw(&mut math, &vt, kind, self.step_size, &x, &mut rng, &opts);
                if self.equal_weight_selection {
                    let tap = nuts_rs::verif::tap_take();
                    nuts_rs::verif::tap_disable();
                    if let Ok(o) = &res {
                        // complete tree of depth D >= 2 (every doubling accepted): start + 2^D - 1 leapfrog states
                        let dpt = o.depth;
                        if !o.diverging && dpt >= 2 && dpt <= 20 && tap.len() as u64 == 1u64 << dpt && tap.iter().all(|t| !t.failed && !t.divergent) {
                            let spread = tap.iter().map(|t| (t.energy - tap[0].energy).abs()).fold(0.0, f64::max);
                            if spread <= 1e-9 {
                                let half = 1usize << (dpt - 1);
                                let quarter = half / 2;
                                let last_half = &tap[tap.len() - half..];
                                if last_half.iter().any(|t| t.index == o.index) {
                                    sel_trials += 1;
                                    if tap[tap.len() - quarter..].iter().any(|t| t.index == o.index) {
                                        sel_newer += 1;
                                    }
                                } else {
                                    sel_outside_last_half += 1;
                                }
                            }
                        }
                    }
                }
                match res {
                    Ok(o) => {
                        if o.diverging {
                            n_div += 1;
                        }
                        if o.index != 0 {
                            n_moved += 1;
                        }
                        if o.maxdepth_reached {
                            n_maxdepth += 1;
                        }
                        depth_sum += o.depth;
                        x = o.position;
                    }
                    Err(e) => {
                        out.violate(format!("{}/stationary/transition_failed/{tname}_{kname}", self.prop), format!("particle {p}: {e}"));
                        return out;
                    }
                }
            }
            dg.f64s(&x);
            for (fi, v) in features(&self.target, &x).iter().enumerate() {
                for k in 0..5 {
                    if *v <= quant[fi][k] {
                        below[fi][k] += 1;
                    }
                }
            }
        }
        out.digest = dg.0;
        out.sim_draws = self.n_particles * self.k;
        out.sim_evals = log.lock().unwrap().n_evals;
        out.probe("stationary_transitions", self.n_particles * self.k);
        out.probe("stationary_divergent_transitions", n_div);
        out.probe("stationary_transitions_moved", n_moved);
        out.probe("stationary_maxdepth_transitions", n_maxdepth);
        out.probe(&format!("stationary_{tname}_{kname}"), 1);
        out.nontrivial = n_moved * 2 > self.n_particles * self.k;
        let debug = std::env::var("VERIF_DEBUG").is_ok();
        if debug {
            eprintln!("mean depth {:.2}, divergent {n_div}, moved {n_moved} of {}", depth_sum as f64 / (self.n_particles * self.k) as f64, self.n_particles * self.k);
        }
        // z statistics: phat ~ p with variance p(1-p)(1/n + 1/m)
        let crit = 6.0;
        for fi in 0..nf {
            for k in 0..5 {
                let p = PROBS[k];
                let se = (p * (1.0 - p) * (1.0 / n as f64 + 1.0 / m as f64)).sqrt();
                let phat = below[fi][k] as f64 / n as f64;
                let z = (phat - p) / se;
                let z0 = (below0[fi][k] as f64 / n as f64 - p) / se;
                if debug {
                    eprintln!("feature {fi} q{p}: start {:.4} (z {z0:.1})  after {} transitions {phat:.4} (z {z:.1})", below0[fi][k] as f64 / n as f64, self.k);
                }
                if z0.abs() > crit {
                    crate::driver::harness_error(&format!("StationaryScenario: the start sample itself deviates (feature {fi}, q {p}, z {z0:.1}): sampler of the harness is wrong"));
                }
                if z.abs() > crit {
                    let what = if fi < d { format!("coordinate {fi}") } else { "log density".to_string() };
                    out.violate(
                        format!("{}/stationary/target_not_invariant/{tname}_{kname}", self.prop),
                        format!("{what}: after {} transitions from exact draws of the target, P(value <= q_{p}) = {phat:.4} over {n} independent particles (start sample {:.4}); z = {z:.1} (critical {crit}); step size {}, mean depth {:.2}, {n_div} divergent transitions", self.k, below0[fi][k] as f64 / n as f64, self.step_size, depth_sum as f64 / (self.n_particles * self.k) as f64),
                    );
                    return out;
                }
            }
        }
        out.probe("stationary_statistics_checked", (nf * 5) as u64);
        if self.equal_weight_selection {
            out.probe("equal_weight_selection_trials", sel_trials);
            out.probe("equal_weight_selection_outside_last_doubling", sel_outside_last_half);
            if sel_trials >= 400 {
                let phat = sel_newer as f64 / sel_trials as f64;
                let z = (phat - 0.5) / (0.25 / sel_trials as f64).sqrt();
                if debug {
                    eprintln!("equal-weight selection: {sel_newer}/{sel_trials} in the newer half (z {z:.1}), {sel_outside_last_half} outside the last doubling");
                }
                if z.abs() > crit {
                    out.violate(
                        format!("{}/stationary/equal_weights_not_selected_uniformly/{tname}_{kname}", self.prop),
                        format!("energy-conserving orbits (all states of a trajectory have the same weight to 1e-9): in {sel_trials} complete trees of depth >= 2 whose draw came from the last doubling, the draw lay in the newer half of that sub-tree {sel_newer} times (fraction {phat:.4}, expected 1/2; z = {z:.1}, critical {crit}); step size {}, maxdepth {}", self.step_size, self.maxdepth),
                    );
                    return out;
                }
                // with equal weights the last doubling is accepted as a whole with probability min(1, w_new / w_old) = 1
                let tot = sel_trials + sel_outside_last_half;
                if sel_outside_last_half as f64 > 0.01 * tot as f64 + 5.0 {
                    out.violate(
                        format!("{}/stationary/equal_weight_doubling_not_taken/{tname}_{kname}", self.prop),
                        format!("energy-conserving orbits: in {sel_outside_last_half} of {tot} complete trees the draw did not come from the last accepted doubling although it carries the same weight as the rest of the tree"),
                    );
                    return out;
                }
            }
        }
        out
    }

    fn shrink(&self) -> Vec<Self> {
        let mut v = vec![];
        if self.k > 1 {
            let mut s = self.clone();
            s.k = self.k / 2;
            v.push(s);
        }
        if self.maxdepth > 1 {
            let mut s = self.clone();
            s.maxdepth -= 1;
            v.push(s);
        }
        if self.extra_doublings > 0 {
            let mut s = self.clone();
            s.extra_doublings = 0;
            v.push(s);
        }
        if self.mindepth > 0 {
            let mut s = self.clone();
            s.mindepth = 0;
            v.push(s);
        }
        if let TransformSpec::LowRank { stds, mean, .. } = &self.transform {
            let mut s = self.clone();
            s.transform = TransformSpec::Diag { stds: stds.clone(), mean: mean.clone() };
            v.push(s);
        }
        v
    }

    fn describe(&self) -> J {
        json!({"target": format!("{:?}", self.target).chars().take(200).collect::<String>(), "transform": match &self.transform { TransformSpec::Diag { .. } => "diag", TransformSpec::LowRank { .. } => "lowrank" },
               "exact_normal": self.exact_normal, "step_size": self.step_size, "maxdepth": self.maxdepth, "mindepth": self.mindepth, "extra_doublings": self.extra_doublings,
               "particles": self.n_particles, "transitions": self.k})
    }
}
