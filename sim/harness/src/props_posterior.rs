//! C04 — adapted samplers reproduce known posteriors (fault-free; what the family contributes is
//! seeded repeatability and the SimMath seam on the momentum).

use serde::{Deserialize, Serialize};
use serde_json::{Value as J, json};

use crate::chain::{CallResult, ChainCfg, Preset, run_chain};
use crate::density::Target;
use crate::driver::{RunOutcome, Scenario};
use crate::prng::{Digest, Prng, splitmix64};
use crate::simmath::MathEvent;

#[derive(Clone, Debug, Serialize, Deserialize)]
pub struct PosteriorScenario {
    pub preset: Preset,
    pub target: Target,
    pub n_chains: u64,
    pub seed: u64,
    /// i.i.d. reference sample size for the truth (targets with a direct sampler)
    pub n_truth: u64,
}

fn iid_sample(t: &Target, r: &mut Prng) -> Option<Vec<f64>> {
    match t {
        Target::DiagNormal { mu, sigma } => Some((0..mu.len()).map(|i| mu[i] + sigma[i] * r.normal()).collect()),
        Target::StudentT { nu, mu, scale } => {
            let k = *nu as u64;
            if (k as f64 - nu).abs() > 1e-12 {
                return None;
            }
            Some((0..mu.len()).map(|i| {
                let z = r.normal();
                let chi2: f64 = (0..k).map(|_| { let g = r.normal(); g * g }).sum();
                mu[i] + scale[i] * z / (chi2 / *nu).sqrt()
            }).collect())
        }
        Target::LogGamma { a } => {
            let mut v = vec![];
            for ai in a {
                let k = *ai as u64;
                if (k as f64 - ai).abs() > 1e-12 {
                    return None;
                }
                let g: f64 = (0..k).map(|_| -(1.0 - r.f64()).ln()).sum();
                v.push(g.ln());
            }
            Some(v)
        }
        _ => None,
    }
}

struct Truth {
    mean: Vec<f64>,
    var: Vec<f64>,
    q: Vec<[f64; 5]>,
    se_mean: Vec<f64>,
    se_var: Vec<f64>,
}

const PROBS: [f64; 5] = [0.05, 0.25, 0.5, 0.75, 0.95];

fn truth_of(t: &Target, cov_diag: Option<&[f64]>, n: u64, seed: u64) -> Option<Truth> {
    let d = t.dim();
    if let Target::DenseNormal { mu, .. } = t {
        // marginals of a dense normal: N(mu_i, Sigma_ii)
        let cd = cov_diag?;
        let z = [-1.6448536269514722, -0.6744897501960817, 0.0, 0.6744897501960817, 1.6448536269514722];
        return Some(Truth {
            mean: mu.clone(),
            var: cd.to_vec(),
            q: (0..d).map(|i| { let mut a = [0.0; 5]; for k in 0..5 { a[k] = mu[i] + cd[i].sqrt() * z[k]; } a }).collect(),
            se_mean: vec![0.0; d],
            se_var: vec![0.0; d],
        });
    }
    let mut r = Prng::new(seed);
    let mut cols: Vec<Vec<f64>> = vec![Vec::with_capacity(n as usize); d];
    for _ in 0..n {
        let x = iid_sample(t, &mut r)?;
        for i in 0..d {
            cols[i].push(x[i]);
        }
    }
    let mut tr = Truth { mean: vec![], var: vec![], q: vec![], se_mean: vec![], se_var: vec![] };
    for c in cols.iter_mut() {
        let m = c.iter().sum::<f64>() / n as f64;
        let v = c.iter().map(|x| (x - m) * (x - m)).sum::<f64>() / (n as f64 - 1.0);
        let m4 = c.iter().map(|x| (x - m).powi(4)).sum::<f64>() / n as f64;
        c.sort_by(|a, b| a.partial_cmp(b).unwrap());
        let mut q = [0.0; 5];
        for k in 0..5 {
            q[k] = c[((PROBS[k] * n as f64) as usize).min(c.len() - 1)];
        }
        tr.mean.push(m);
        tr.var.push(v);
        tr.q.push(q);
        tr.se_mean.push((v / n as f64).sqrt());
        tr.se_var.push(((m4 - v * v).max(0.0) / n as f64).sqrt());
    }
    Some(tr)
}

/// two-sided 1e-7 critical value of Student's t with k-1 degrees of freedom (conservative table)
fn t_crit(k: u64) -> f64 {
    match k {
        0..=11 => 14.0,
        12..=15 => 10.5,
        16..=23 => 9.0,
        24..=31 => 7.6,
        32..=47 => 7.0,
        _ => 6.5,
    }
}

impl Scenario for PosteriorScenario {
    fn run(&self) -> RunOutcome {
        let mut out = RunOutcome::default();
        let kin = match &self.preset {
            Preset::DiagNuts(s) if matches!(s.trajectory_kind, nuts_rs::KineticEnergyKind::ExactNormal) => "exact_normal",
            Preset::LowRankNuts(s) if matches!(s.trajectory_kind, nuts_rs::KineticEnergyKind::ExactNormal) => "exact_normal",
            Preset::FlowNuts(s) if matches!(s.trajectory_kind, nuts_rs::KineticEnergyKind::ExactNormal) => "exact_normal",
            _ => "euclidean",
        };
        let fam = match &self.target {
            Target::DiagNormal { .. } => "diag_normal",
            Target::DenseNormal { .. } => "dense_normal",
            Target::StudentT { .. } => "student_t",
            Target::LogGamma { .. } => "log_gamma",
            _ => "other",
        };
        // violation keys carry the cell: preset / kinetic energy / target family
        let pname = format!("{}/{kin}/{fam}", self.preset.name());
        let pname = pname.as_str();
        let d = self.target.dim();
        let nt = self.preset.num_tune() as usize;
        let cov_diag: Option<Vec<f64>> = if let Target::DenseNormal { prec, .. } = &self.target { Some(inv_diag(prec, d)) } else { None };
        let Some(truth) = truth_of(&self.target, cov_diag.as_deref(), self.n_truth, splitmix64(self.seed ^ 0x7777)) else {
            crate::driver::harness_error("C04: target without reference sampler");
        };
        let k = self.n_chains;
        let mut means = vec![vec![]; d];
        let mut vars = vec![vec![]; d];
        let mut cover = vec![vec![vec![]; 5]; d];
        let mut dg = Digest::new();
        let mut momenta: Vec<f64> = vec![];
        let mut mom_pairs: Vec<(f64, f64)> = vec![]; // (momentum_t, momentum_{t+1}) first coordinate
        let mut mom_pos: Vec<(f64, f64)> = vec![]; // (previous draw standardised, momentum)
        let mut post_div = 0u64;
        for c in 0..k {
            let mut r = Prng::new(splitmix64(self.seed ^ c));
            let init = crate::swarm::init_point(&mut r, &self.target);
            let cfg = ChainCfg {
                preset: self.preset.clone(),
                target: self.target.clone(),
                faults: vec![],
                init,
                chain_seed: r.next_u64(),
                chain_id: c,
                n_calls: self.preset.num_tune() + self.preset.num_draws(),
                keep_evals: false,
                max_evals: 50_000_000,
                reinit_at: None,
                observe_math: c < 4,
            };
            let h = run_chain(&cfg);
            dg.u64(h.digest());
            out.sim_draws += h.draws.len() as u64;
            out.sim_evals += h.n_evals;
            if h.new_chain != CallResult::Ok || h.set_position != CallResult::Ok || h.failed_call.is_some() {
                out.violate(format!("C04/chain_failed/{pname}"), format!("chain {c}: new_chain {:?}, set_position {:?}, failed {:?}", h.new_chain, h.set_position, h.failed_call.as_ref().map(|f| &f.1)));
                out.digest = dg.0;
                return out;
            }
            let post = &h.draws[nt..];
            if std::env::var("VERIF_DEBUG").is_ok() && c < 6 {
                let ss = post.last().map(|d| d.progress.step_size).unwrap_or(0.0);
                let steps = post.iter().map(|d| d.progress.num_steps as f64).sum::<f64>() / post.len() as f64;
                let acc = post.iter().filter_map(|d| d.f64("mean_tree_accept")).sum::<f64>() / post.len() as f64;
                eprintln!("chain {c}: step size {ss:.4}, mean steps {steps:.2}, mean accept {acc:.3}");
            }
            post_div += post.iter().filter(|x| x.progress.diverging).count() as u64;
            for i in 0..d {
                let xs: Vec<f64> = post.iter().map(|x| x.pos[i]).collect();
                let n = xs.len() as f64;
                let m = xs.iter().sum::<f64>() / n;
                let v = xs.iter().map(|x| (x - m) * (x - m)).sum::<f64>() / (n - 1.0);
                means[i].push(m);
                vars[i].push(v);
                for q in 0..5 {
                    cover[i][q].push(xs.iter().filter(|x| **x <= truth.q[i][q]).count() as f64 / n);
                }
            }
            if c < 4 {
                // momentum at the start of each trajectory: the first Gaussian draw of each draw call
                let mut prev_m: Option<f64> = None;
                for (j, dr) in h.draws.iter().enumerate() {
                    let first = h.math_events[dr.math.0..dr.math.1].iter().find_map(|e| match e {
                        MathEvent::Gaussian { values, .. } => Some(values.clone()),
                        _ => None,
                    });
                    if let Some(v) = first {
                        if j >= nt {
                            momenta.extend(v.iter().cloned());
                            if let Some(p) = prev_m {
                                mom_pairs.push((p, v[0]));
                            }
                            if j > 0 {
                                let z = (h.draws[j - 1].pos[0] - truth.mean[0]) / truth.var[0].sqrt();
                                mom_pos.push((z, v[0]));
                            }
                        }
                        prev_m = Some(v[0]);
                    }
                }
            }
        }
        // between-chain t statistics
        let crit = t_crit(k);
        let stat = |xs: &Vec<f64>, truth: f64, se_truth: f64| -> (f64, f64, f64) {
            let n = xs.len() as f64;
            let m = xs.iter().sum::<f64>() / n;
            let s2 = xs.iter().map(|x| (x - m) * (x - m)).sum::<f64>() / (n - 1.0);
            let se = (s2 / n + se_truth * se_truth).sqrt();
            ((m - truth) / se.max(1e-300), m, se)
        };
        let mut worst = 0.0f64;
        for i in 0..d {
            let (t, m, se) = stat(&means[i], truth.mean[i], truth.se_mean[i]);
            worst = worst.max(t.abs());
            if t.abs() > crit {
                out.violate(format!("C04/posterior_mean/{pname}"), format!("coordinate {i}: mean over {k} chains {m:e} (se {se:e}), truth {:e}: t = {t:.1} (critical {crit})", truth.mean[i]));
            }
            // heavy tails: the sample variance of a Student-t with few degrees of freedom converges too slowly
            // (and its between-chain spread is itself unreliable) for a test at this level
            let heavy = matches!(&self.target, Target::StudentT { nu, .. } if *nu < 10.0);
            let (t, m, se) = stat(&vars[i], truth.var[i], truth.se_var[i]);
            if !heavy {
                worst = worst.max(t.abs());
            }
            if t.abs() > crit && !heavy {
                out.violate(format!("C04/posterior_variance/{pname}"), format!("coordinate {i}: variance over {k} chains {m:e} (se {se:e}), truth {:e} (ratio {:.3}): t = {t:.1} (critical {crit})", truth.var[i], m / truth.var[i]));
            }
            for q in 0..5 {
                // the truth's quantile has sampling error too: coverage se of the reference sample
                let se_q = (PROBS[q] * (1.0 - PROBS[q]) / self.n_truth.max(1) as f64).sqrt() * if cov_diag.is_some() { 0.0 } else { 1.0 };
                let (t, m, se) = stat(&cover[i][q], PROBS[q], se_q);
                worst = worst.max(t.abs());
                if (t.abs() > crit || q == 0) && std::env::var("VERIF_DEBUG").is_ok() {
                    eprintln!("coverage per chain (coordinate {i}, q {}): {:?}", PROBS[q], cover[i][q].iter().map(|x| (x * 1000.0).round() / 1000.0).collect::<Vec<_>>());
                    eprintln!("means per chain: {:?}", means[i].iter().map(|x| (x * 100.0).round() / 100.0).collect::<Vec<_>>());
                    eprintln!("vars per chain: {:?}", vars[i].iter().map(|x| (x * 100.0).round() / 100.0).collect::<Vec<_>>());
                }
                if t.abs() > crit {
                    out.violate(format!("C04/quantile_coverage/{pname}"), format!("coordinate {i}: P(x <= q_{}) = {m:.4} (se {se:.4}) over {k} chains: t = {t:.1} (critical {crit})", PROBS[q]));
                }
            }
        }
        out.probe("max_abs_t_x100", (worst * 100.0) as u64);
        // no divergences after warmup on well-conditioned Gaussian targets
        // well-conditioned: isotropic and correlated Gaussians with condition number <= 400
        let well_conditioned = match &self.target {
            Target::DiagNormal { sigma, .. } => sigma.iter().all(|s| *s == sigma[0]),
            Target::DenseNormal { .. } => true,
            _ => false,
        };
        if well_conditioned && post_div > 0 {
            out.violate(format!("C04/divergence_on_gaussian/{pname}"), format!("{post_div} post-warmup divergences over {k} chains"));
        }
        // momentum: standard normal, independent of earlier draws
        if momenta.len() > 1000 {
            let mut s = momenta.clone();
            s.sort_by(|a, b| a.partial_cmp(b).unwrap());
            let n = s.len() as f64;
            let mut dmax = 0.0f64;
            for (i, x) in s.iter().enumerate() {
                let f = 0.5 * (1.0 + erf(x / std::f64::consts::SQRT_2));
                dmax = dmax.max((f - i as f64 / n).abs()).max((f - (i as f64 + 1.0) / n).abs());
            }
            let lam = dmax * n.sqrt();
            out.probe("momentum_ks_lambda_x100", (lam * 100.0) as u64);
            if lam > 2.9 {
                out.violate(format!("C04/momentum_not_standard_normal/{pname}"), format!("KS distance {dmax:.5} over {} momentum components (lambda {lam:.2} > 2.9)", s.len()));
            }
            let corr = |p: &Vec<(f64, f64)>| -> (f64, f64) {
                let n = p.len() as f64;
                let (mx, my) = (p.iter().map(|a| a.0).sum::<f64>() / n, p.iter().map(|a| a.1).sum::<f64>() / n);
                let sxy: f64 = p.iter().map(|a| (a.0 - mx) * (a.1 - my)).sum();
                let sxx: f64 = p.iter().map(|a| (a.0 - mx).powi(2)).sum();
                let syy: f64 = p.iter().map(|a| (a.1 - my).powi(2)).sum();
                (sxy / (sxx * syy).sqrt().max(1e-300), n)
            };
            for (name, p) in [("consecutive_momenta", &mom_pairs), ("momentum_vs_previous_draw", &mom_pos)] {
                if p.len() > 500 {
                    let (r, n) = corr(p);
                    if r.abs() * n.sqrt() > 5.5 {
                        out.violate(format!("C04/momentum_not_independent/{name}/{pname}"), format!("correlation {r:.4} over {n} trajectories"));
                    }
                }
            }
            out.probe("momentum_samples_checked", momenta.len() as u64);
        }
        out.digest = dg.0;
        out.nontrivial = true;
        out
    }

    fn describe(&self) -> J {
        json!({"preset": self.preset.name(), "target": format!("{:?}", self.target).chars().take(200).collect::<String>(), "dim": self.target.dim(), "chains": self.n_chains,
               "num_tune": self.preset.num_tune(), "num_draws": self.preset.num_draws()})
    }
}

fn erf(x: f64) -> f64 {
    // Abramowitz-Stegun 7.1.26 is too coarse for a KS test at n ~ 1e5; use a series / continued fraction
    let a = x.abs();
    let r = if a < 2.5 {
        // Maclaurin series
        let mut sum = a;
        let mut term = a;
        let mut n = 0.0;
        loop {
            n += 1.0;
            term *= -a * a / n;
            let add = term / (2.0 * n + 1.0);
            sum += add;
            if add.abs() < 1e-17 * sum.abs() {
                break;
            }
        }
        2.0 / std::f64::consts::PI.sqrt() * sum
    } else {
        // continued fraction for erfc
        let mut f = 0.0;
        for k in (1..60).rev() {
            f = k as f64 / 2.0 / (a + f);
        }
        1.0 - (-a * a).exp() / (std::f64::consts::PI.sqrt() * (a + f))
    };
    if x < 0.0 { -r } else { r }
}

/// diagonal of the inverse of a symmetric positive definite matrix (row-major), by Gauss-Jordan
fn inv_diag(p: &[f64], n: usize) -> Vec<f64> {
    let mut a: Vec<f64> = p.to_vec();
    let mut inv = vec![0.0; n * n];
    for i in 0..n {
        inv[i * n + i] = 1.0;
    }
    for c in 0..n {
        let piv = a[c * n + c];
        for j in 0..n {
            a[c * n + j] /= piv;
            inv[c * n + j] /= piv;
        }
        for r in 0..n {
            if r != c {
                let f = a[r * n + c];
                for j in 0..n {
                    a[r * n + j] -= f * a[c * n + j];
                    inv[r * n + j] -= f * inv[c * n + j];
                }
            }
        }
    }
    (0..n).map(|i| inv[i * n + i]).collect()
}
