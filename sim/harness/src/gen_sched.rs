//! Workload generation for engine B: settings, tiny models, user scripts, scheduler personalities.

use crate::density::{Target, std_normal};
use crate::driver::Tier;
use crate::prng::Prng;
use crate::props_sched::{Ending, SchedScenario, UserCmd, set_seed};
use crate::sched::{ModelCfg, Personality, StoreFaults};
use crate::swarm::{PresetKind, SwarmOpts, gen_preset};

#[derive(Clone, Copy, PartialEq)]
pub enum ScriptStyle {
    Mixed,
    PauseFocused,
    None,
}

pub fn gen_script(r: &mut Prng, style: ScriptStyle, ending: &Ending) -> Vec<UserCmd> {
    let mut s = vec![];
    match style {
        ScriptStyle::None => {}
        ScriptStyle::PauseFocused => {
            // let the chains run a little, pause, look, give them every chance to overrun, resume
            let rounds = r.range(1, 3);
            for _ in 0..rounds {
                if r.chance(0.7) {
                    s.push(UserCmd::Yield(r.range(0, 40) as u32));
                }
                s.push(UserCmd::Pause);
                if r.chance(0.3) {
                    s.push(UserCmd::Pause);
                }
                if r.chance(0.6) {
                    s.push(UserCmd::Progress);
                }
                s.push(UserCmd::Yield(r.range(5, 60) as u32));
                if r.chance(0.3) {
                    s.push(UserCmd::Flush);
                }
                if r.chance(0.3) {
                    s.push(UserCmd::Progress);
                }
                s.push(UserCmd::Resume);
                if r.chance(0.2) {
                    s.push(UserCmd::Resume);
                }
            }
        }
        ScriptStyle::Mixed => {
            let n = r.range(0, 8);
            for _ in 0..n {
                let c = match r.below(10) {
                    0 | 1 => UserCmd::Pause,
                    2 | 3 => UserCmd::Resume,
                    4 | 5 => UserCmd::Progress,
                    6 => UserCmd::Flush,
                    7 => UserCmd::Inspect,
                    8 => UserCmd::WaitShort(r.range(0, 3)),
                    _ => UserCmd::Yield(r.range(1, 30) as u32),
                };
                s.push(c);
            }
        }
    }
    // never wait for completion while paused: that is a user error, not a sampler property
    if *ending != Ending::Abort {
        let mut paused = false;
        for c in &s {
            match c {
                UserCmd::Pause => paused = true,
                UserCmd::Resume => paused = false,
                _ => {}
            }
        }
        // a WaitShort while paused is fine (it times out), but the final wait needs running chains
        if paused {
            s.push(UserCmd::Resume);
        }
    }
    s
}

pub struct GenOpts {
    pub prop: &'static str,
    pub style: ScriptStyle,
    pub tier: Tier,
    pub allow_abort: bool,
    pub natural_divergences: bool,
}

pub fn gen_sched(seed: u64, o: &GenOpts) -> SchedScenario {
    let mut rc = Prng::sub(seed, "config");
    let mut rw = Prng::sub(seed, "workload");
    let kind = match rc.below(20) {
        0..=8 => PresetKind::DiagNuts,
        9..=11 => PresetKind::LowRankNuts,
        12..=13 => PresetKind::FlowNuts,
        14..=16 => PresetKind::DiagMclmc,
        17..=18 => PresetKind::LowRankMclmc,
        _ => PresetKind::FlowMclmc,
    };
    let is_mclmc = matches!(kind, PresetKind::DiagMclmc | PresetKind::LowRankMclmc | PresetKind::FlowMclmc);
    let num_tune = rc.range(0, 8);
    // (num_tune = num_draws = 0 included: a run of zero draws has to finish with empty traces)
    let num_draws = rc.range(0, 8);
    let so = SwarmOpts { randomise_knobs: true, ..Default::default() };
    let mut preset = gen_preset(&mut rc, kind, num_tune, num_draws, &so);
    // keep trajectories short: the interleavings of interest are between draws, not inside them
    match &mut preset {
        crate::chain::Preset::DiagNuts(s) => s.maxdepth = s.maxdepth.min(3),
        crate::chain::Preset::LowRankNuts(s) => s.maxdepth = s.maxdepth.min(3),
        crate::chain::Preset::FlowNuts(s) => s.maxdepth = s.maxdepth.min(3),
        crate::chain::Preset::DiagMclmc(s) => {
            s.step_size = s.step_size.max(0.3);
            s.momentum_decoherence_length = s.momentum_decoherence_length.min(2.0);
        }
        crate::chain::Preset::LowRankMclmc(s) => {
            s.step_size = s.step_size.max(0.3);
            s.momentum_decoherence_length = s.momentum_decoherence_length.min(2.0);
        }
        crate::chain::Preset::FlowMclmc(s) => {
            s.step_size = s.step_size.max(0.3);
            s.momentum_decoherence_length = s.momentum_decoherence_length.min(2.0);
            s.adapt_options.step_size_settings.adapt_options.method = nuts_rs::StepSizeAdaptMethod::Fixed(s.step_size);
        }
    }
    let nc = rc.range(1, 6) as usize;
    set_seed(&mut preset, rw.next_u64());
    let preset = {
        let mut p = preset;
        match &mut p {
            crate::chain::Preset::DiagNuts(s) => s.num_chains = nc,
            crate::chain::Preset::LowRankNuts(s) => s.num_chains = nc,
            crate::chain::Preset::FlowNuts(s) => s.num_chains = nc,
            crate::chain::Preset::DiagMclmc(s) => s.num_chains = nc,
            crate::chain::Preset::LowRankMclmc(s) => s.num_chains = nc,
            crate::chain::Preset::FlowMclmc(s) => s.num_chains = nc,
        }
        p
    };
    let dim = if is_mclmc { rc.usize_in(2, 3) } else { rc.usize_in(1, 3) };
    let target = if o.natural_divergences && dim >= 2 && rw.chance(0.25) {
        Target::Funnel { dim }
    } else if rw.chance(0.5) {
        std_normal(dim)
    } else {
        Target::DiagNormal {
            mu: (0..dim).map(|_| rw.uniform(-2.0, 2.0)).collect(),
            sigma: (0..dim).map(|_| rw.log_uniform(0.2, 5.0)).collect(),
        }
    };
    let ending = if o.allow_abort && rw.chance(0.3) {
        Ending::Abort
    } else if rw.chance(0.2) {
        Ending::WaitBlocking
    } else {
        Ending::WaitDone
    };
    let script = gen_script(&mut rw, o.style, &ending);
    let n_costs = rw.range(1, 7) as usize;
    let eval_cost_ns = (0..n_costs).map(|_| rw.log_uniform(1e3, 1e7) as u64).collect();
    let personality = if rc.chance(0.6) {
        Personality::Sticky { stick: *rc.pick(&[0.0, 0.5, 0.9, 0.99]) }
    } else {
        Personality::Priority { changes: rc.range(1, 5) as u32, horizon: 400 }
    };
    SchedScenario {
        prop: o.prop.to_string(),
        preset,
        model: ModelCfg {
            target,
            random_init: rw.chance(0.5),
            density_faults: vec![],
            math_fail_calls: vec![],
            bad_init_first: 0,
            init_err_call: None,
            eval_cost_ns,
        },
        store_faults: StoreFaults::default(),
        num_cores: rc.range(1, 4) as usize,
        callback_rate_us: if rw.chance(0.4) { Some(rw.log_uniform(1.0, 5e4) as u64) } else { None },
        script,
        ending,
        personality,
        sched_seed: rw.next_u64(),
        n_schedules: if o.tier == Tier::Quick { 4 } else { 8 },
        // C10..C12: a third of the runs each with the recording storage alone, teeing into the real HashMap
        // backend, teeing into the real ndarray backend
        backend: if o.prop == "C13" { crate::sched::RealBackend::None } else { *rw.pick(&[crate::sched::RealBackend::None, crate::sched::RealBackend::HashMap, crate::sched::RealBackend::Ndarray]) },
        only_schedule: None,
        enumerate_faults: false,
        only_fault: None,
    }
}
