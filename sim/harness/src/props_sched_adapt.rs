//! C09 — adaptation windows: the recorded history (public statistics) drives a small reference
//! schedule; the hook-H4 counters of the real strategy must satisfy the window invariants.

use nuts_rs::StepSizeAdaptMethod;
use serde::{Deserialize, Serialize};
use serde_json::{Value as J, json};

use crate::chain::{CallResult, ChainCfg, Preset, run_chain};
use crate::driver::{RunOutcome, Scenario};
use crate::props_fault::segment;
use crate::swarm::shrink_chain_cfg;

#[derive(Clone, Debug, Serialize, Deserialize)]
pub struct WindowScenario {
    pub cfg: ChainCfg,
}

struct Opts {
    early_freq: u64,
    growth: f64,
    num_tune: u64,
    fixed_step: bool,
}

fn opts(p: &Preset) -> Option<Opts> {
    macro_rules! o {
        ($s:expr, $fixed:expr) => {
            Some(Opts {
                early_freq: $s.adapt_options.early_mass_matrix_switch_freq,
                growth: $s.adapt_options.mass_matrix_window_growth,
                num_tune: $s.num_tune,
                fixed_step: $fixed,
            })
        };
    }
    match p {
        Preset::DiagNuts(s) => o!(s, matches!(s.adapt_options.step_size_settings.adapt_options.method, StepSizeAdaptMethod::Fixed(_))),
        Preset::LowRankNuts(s) => o!(s, matches!(s.adapt_options.step_size_settings.adapt_options.method, StepSizeAdaptMethod::Fixed(_))),
        Preset::DiagMclmc(s) => o!(s, true),
        Preset::LowRankMclmc(s) => o!(s, true),
        _ => None,
    }
}

impl Scenario for WindowScenario {
    fn run(&self) -> RunOutcome {
        let mut cfg = self.cfg.clone();
        cfg.keep_evals = true;
        cfg.observe_math = true;
        let h = run_chain(&cfg);
        let mut out = RunOutcome { digest: h.digest(), sim_draws: h.draws.len() as u64, sim_evals: h.n_evals, ..Default::default() };
        let pname = cfg.preset.name();
        out.probe(&format!("preset_{pname}"), 1);
        let Some(o) = opts(&cfg.preset) else { return out };
        if h.new_chain != CallResult::Ok || h.set_position != CallResult::Ok {
            return out;
        }
        let Some(init) = h.init_counters else {
            crate::driver::harness_error("C09: hook H4 counters not available");
        };
        let early_end = init.early_end;
        let fws = init.final_window_start;
        // the boundaries themselves follow from the public settings
        if fws > o.num_tune || early_end > o.num_tune {
            out.violate(format!("C09/phase_boundaries/{pname}"), format!("early_end {early_end}, final window start {fws}, num_tune {}", o.num_tune));
            return out;
        }
        let mut prev = init;
        let mut inherited = init.foreground.saturating_sub(init.background); // fg - bg stays constant between switches
        let mut n_switch = 0u64;
        let mut first_change_seen = false;
        for (n, d) in h.draws.iter().enumerate() {
            let n = n as u64;
            let Some(c) = d.counters else { break };
            if n >= o.num_tune || n >= fws {
                // final window / sampling: the estimators are not touched any more
                if c.foreground != prev.foreground || c.background != prev.background || c.window != prev.window {
                    out.violate(
                        format!("C09/estimator_touched_in_final_window/{pname}"),
                        format!("draw {n} (final step-size window starts at {fws}, num_tune {}): counters {:?} -> {:?}", o.num_tune, (prev.foreground, prev.background, prev.window), (c.foreground, c.background, c.window)),
                    );
                    return out;
                }
                out.probe("final_window_draws_checked", 1);
                prev = c;
                continue;
            }
            let is_early = n < early_end;
            // window required for a switch at this draw (the main-phase window never shrinks below what the
            // background already holds when the early phase ends)
            let window_before = if !is_early && n == early_end { prev.window.max(prev.background) } else { prev.window };
            let required = if is_early { o.early_freq } else { window_before };
            // was this draw accepted by the estimators? (public statistics only)
            let good: u64 = if cfg.preset.is_nuts() {
                let idx = d.i64("index_in_trajectory").unwrap_or(0);
                if d.progress.diverging { (idx.abs() > 4) as u64 } else { (idx != 0) as u64 }
            } else if d.progress.diverging {
                (d.progress.num_steps > 4) as u64
            } else {
                1
            };
            let no_switch_expect = (prev.foreground + good, prev.background + good);
            let switch_expect = (prev.background + good, 0u64);
            let switched = if (c.foreground, c.background) == no_switch_expect {
                false
            } else if (c.foreground, c.background) == switch_expect {
                true
            } else {
                out.violate(
                    format!("C09/counters_inconsistent_with_history/{pname}"),
                    format!("draw {n}: estimator counts (foreground, background) {:?} -> {:?}; the draw was {} (index {:?}, diverging {}), so expected {:?} without or {:?} with a switch", (prev.foreground, prev.background), (c.foreground, c.background), if good == 1 { "accepted" } else { "rejected" }, d.i64("index_in_trajectory"), d.progress.diverging, no_switch_expect, switch_expect),
                );
                return out;
            };
            if switched {
                n_switch += 1;
                let bg_pre = c.foreground; // fg after the switch = background right before it
                let next_window = if is_early { o.early_freq } else { c.window };
                if bg_pre < required {
                    out.violate(
                        format!("C09/switch_before_window_full/{pname}"),
                        format!("draw {n}: switched with {bg_pre} draws in the background estimator, window {required} ({})", if is_early { "early phase" } else { "main phase" }),
                    );
                    return out;
                }
                if n + next_window > fws {
                    out.violate(
                        format!("C09/switch_without_room_for_another_window/{pname}"),
                        format!("draw {n}: switched although the next window ({next_window} draws) does not fit before the final step-size window at draw {fws}"),
                    );
                    return out;
                }
                if !is_early {
                    // geometric growth (rounding not pinned down): next in [floor(w*g), ceil(w*g)] or w+1
                    let w = window_before as f64;
                    let lo = ((w * o.growth).floor() as u64).max(window_before + 1).min(((w * o.growth).ceil() as u64).max(window_before + 1));
                    let hi = ((w * o.growth).ceil() as u64).max(window_before + 1);
                    if c.window < lo || c.window > hi {
                        out.violate(format!("C09/window_growth/{pname}"), format!("draw {n}: window {window_before} -> {} with growth factor {}", c.window, o.growth));
                        return out;
                    }
                } else if c.window != prev.window {
                    out.violate(format!("C09/window_changed_in_early_phase/{pname}"), format!("draw {n}: window {} -> {}", prev.window, c.window));
                    return out;
                }
                inherited = c.foreground - c.background;
                out.probe(if is_early { "early_switches" } else { "main_switches" }, 1);
            } else {
                // no switch: both estimators saw the same draw or none
                let dfg = c.foreground as i64 - prev.foreground as i64;
                let dbg = c.background as i64 - prev.background as i64;
                if dfg != dbg || !(dfg == 0 || dfg == 1) {
                    out.violate(format!("C09/estimators_out_of_step/{pname}"), format!("draw {n}: foreground {} -> {}, background {} -> {}", prev.foreground, c.foreground, prev.background, c.background));
                    return out;
                }
                if c.foreground - c.background != inherited {
                    out.violate(format!("C09/stale_draws_in_foreground/{pname}"), format!("draw {n}: foreground - background = {} but {inherited} draws were inherited at the last switch", c.foreground - c.background));
                    return out;
                }
                if dfg == 0 {
                    out.probe("rejected_draws_not_counted", 1);
                }
                // missed switch: window full and even the largest admissible next window still fits
                let next_hi = if is_early { o.early_freq } else { ((window_before as f64 * o.growth).ceil() as u64).max(window_before + 1) };
                if c.background >= required && n + next_hi <= fws {
                    out.violate(
                        format!("C09/missed_switch/{pname}"),
                        format!("draw {n}: background holds {} >= window {required} and another window of {next_hi} fits before draw {fws}, but no switch happened", c.background),
                    );
                    return out;
                }
                if !is_early && n == early_end && c.window != window_before {
                    out.violate(format!("C09/main_window_seed/{pname}"), format!("draw {n}: main-phase window {} (expected max(configured, background) = {window_before})", c.window));
                    return out;
                }
            }
            // first transformation change re-runs the step-size search (same draw call), later ones do not
            let seg = segment(&h, &cfg, d.evals.0, d.evals.1);
            let changed_now = prev.has_initial_mass_matrix && !c.has_initial_mass_matrix;
            if cfg.preset.is_nuts() && !o.fixed_step {
                // (a recoverable failure of the density at the search's start point skips the search: the
                // base-point evaluation is then the last evaluation of the call and returned an error)
                let base_failed = seg.search_base.map(|b| h.evals.iter().any(|e| e.index == b && e.returned_err)).unwrap_or(false);
                let _ = base_failed;
                if changed_now && seg.search_base.is_none() {
                    out.violate(format!("C09/no_step_size_search_after_first_update/{pname}"), format!("draw {n}: first transformation change without a re-run of the step-size search"));
                    return out;
                }
                if !changed_now && seg.search_base.is_some() {
                    out.violate(format!("C09/unexpected_step_size_search/{pname}"), format!("draw {n}: step-size search re-run although this is not the first transformation change (first change seen before: {first_change_seen})"));
                    return out;
                }
                if changed_now {
                    out.probe("first_update_with_search_checked", 1);
                }
            }
            if changed_now {
                first_change_seen = true;
                // the change must be visible as an update event
                // (the low-rank strategy reports a change also when its estimate was rejected as invalid and
                // the transformation kept its previous value: only the diagonal strategy is held to this)
                if matches!(cfg.preset, Preset::DiagNuts(_) | Preset::DiagMclmc(_)) && d.stat("transformation_update_id").is_none() {
                    out.violate(format!("C09/first_update_not_reported/{pname}"), format!("draw {n}"));
                    return out;
                }
            }
            // a switch rebuilds the transformation when the new foreground has >= 3 draws
            let is_diag = matches!(cfg.preset, Preset::DiagNuts(_) | Preset::DiagMclmc(_));
            if is_diag && switched && c.foreground >= 3 && n > 0 && d.stat("transformation_update_id").is_none() {
                out.violate(format!("C09/switch_without_transformation_update/{pname}"), format!("draw {n}: estimators switched (foreground {}) but no transformation update was reported", c.foreground));
                return out;
            }
            prev = c;
        }
        out.probe("switches", n_switch);
        out.nontrivial = n_switch > 0;
        out
    }

    fn shrink(&self) -> Vec<Self> {
        let mut v: Vec<WindowScenario> = shrink_chain_cfg(&self.cfg).into_iter().map(|cfg| WindowScenario { cfg }).collect();
        let nt = self.cfg.preset.num_tune();
        for k in [nt / 2, nt.saturating_sub(1)] {
            if k < nt && k > 0 {
                let mut c = self.cfg.clone();
                c.preset.set_num_tune(k);
                crate::checks::fix_early_window(&mut c.preset, k);
                c.n_calls = k + c.preset.num_draws();
                v.push(WindowScenario { cfg: c });
            }
        }
        v
    }

    fn describe(&self) -> J {
        json!({"preset": self.cfg.preset.name(), "num_tune": self.cfg.preset.num_tune(), "num_draws": self.cfg.preset.num_draws(), "dim": self.cfg.target.dim(),
               "faults": self.cfg.faults.len(), "settings": serde_json::to_value(&self.cfg.preset).unwrap_or(J::Null)})
    }
}
