//! C09 — adaptation windows: the recorded history (public statistics) drives a small reference
//! schedule; the hook-H4 counters of the real strategy must satisfy the window invariants.

use nuts_rs::StepSizeAdaptMethod;
use serde::{Deserialize, Serialize};
use serde_json::{Value as J, json};

use crate::chain::{CallResult, ChainCfg, Preset, run_chain};
use crate::driver::{RunOutcome, Scenario};
use crate::props_fault::segment;
use crate::swarm::shrink_chain_cfg;

#[derive(Clone, Debug, Serialize, Deserialize)]
pub struct WindowScenario {
    pub cfg: ChainCfg,
}

struct Opts {
    early_freq: u64,
    growth: f64,
    num_tune: u64,
    fixed_step: bool,
}

fn opts(p: &Preset) -> Option<Opts> {
    macro_rules! o {
        ($s:expr, $fixed:expr) => {
            Some(Opts {
                early_freq: $s.adapt_options.early_mass_matrix_switch_freq,
                growth: $s.adapt_options.mass_matrix_window_growth,
                num_tune: $s.num_tune,
                fixed_step: $fixed,
            })
        };
    }
    match p {
        Preset::DiagNuts(s) => o!(s, matches!(s.adapt_options.step_size_settings.adapt_options.method, StepSizeAdaptMethod::Fixed(_))),
        Preset::LowRankNuts(s) => o!(s, matches!(s.adapt_options.step_size_settings.adapt_options.method, StepSizeAdaptMethod::Fixed(_))),
        Preset::DiagMclmc(s) => o!(s, true),
        Preset::LowRankMclmc(s) => o!(s, true),
        _ => None,
    }
}

/// Reference content of the two diagonal estimators: (draw, gradient) pairs, oldest first.
struct RefWindow {
    fg: Vec<(Vec<f64>, Vec<f64>)>,
    bg: Vec<(Vec<f64>, Vec<f64>)>,
}

/// two-pass mean and the admissible range of the "sum of squared deviations" of a window: from the exact
/// one to the running sum of squared differences from the previous mean (the accumulator the repository
/// uses; it is larger by a factor of at most 1 + H_n / n). Which of the formulas is used is not part of
/// C09 - which draws enter is. None if a value is not finite or the spread is lost in rounding.
fn moments(xs: &[f64]) -> Option<(f64, f64, f64)> {
    if xs.iter().any(|x| !x.is_finite() || x.abs() > 1e100) {
        return None;
    }
    let n = xs.len() as f64;
    let mean = xs.iter().sum::<f64>() / n;
    let ss = xs.iter().map(|x| (x - mean) * (x - mean)).sum::<f64>();
    let (mn, mx) = xs.iter().fold((f64::INFINITY, f64::NEG_INFINITY), |(a, b), x| (a.min(*x), b.max(*x)));
    let scale = xs.iter().fold(0.0f64, |a, x| a.max(x.abs()));
    if !(mx - mn >= 1e-3 * scale) || !(ss > 0.0) || !ss.is_finite() {
        return None;
    }
    let mut run_mean = xs[0];
    let mut run_ss = 0.0;
    for (k, x) in xs.iter().enumerate().skip(1) {
        let diff = x - run_mean;
        run_mean += diff / (k as f64 + 1.0);
        run_ss += diff * diff;
    }
    Some((mean, ss, run_ss.max(ss)))
}

impl RefWindow {
    /// compare the reported scales / mean with the estimate from the foreground window; returns the
    /// number of coordinates compared
    fn compare(&self, grad_based: bool, stds: &[f64], mu: &[f64]) -> Result<u64, String> {
        let n = self.fg.len();
        let dim = stds.len();
        let mut checked = 0;
        for i in 0..dim {
            let xs: Vec<f64> = self.fg.iter().map(|(x, _)| x[i]).collect();
            let gs: Vec<f64> = self.fg.iter().map(|(_, g)| g[i]).collect();
            let Some((mx, sx, sx_run)) = moments(&xs) else { continue };
            // admissible interval of the variance-like value whose square root is the reported scale
            let (lo, hi, mg) = if grad_based {
                let Some((mg, sg, sg_run)) = moments(&gs) else { continue };
                let v = (sx / sg).sqrt();
                let v_run = (sx_run / sg_run).sqrt();
                if !(v.is_finite() && v > 0.0 && v_run.is_finite() && v_run > 0.0) {
                    continue;
                }
                (v.min(v_run), v.max(v_run), Some(mg))
            } else {
                // (the normalisation, 1/n or 1/(n-1), is not pinned down)
                (sx / n as f64, sx_run / (n as f64 - 1.0), None)
            };
            if lo < 1e-19 || hi > 1e19 {
                continue; // clamped
            }
            let (lo, hi) = (lo.sqrt() * (1.0 - 1e-6), hi.sqrt() * (1.0 + 1e-6));
            if !(stds[i] >= lo && stds[i] <= hi) {
                return Err(format!(
                    "coordinate {i}: reported scale {:e}, the window's draws{} give {:e}{}; window draws {:?}",
                    stds[i],
                    if grad_based { " and gradients" } else { "" },
                    lo,
                    if lo != hi { format!(" .. {:e}", hi) } else { String::new() },
                    xs.iter().take(12).collect::<Vec<_>>()
                ));
            }
            // (the grad-based mean uses the reported scale: mean(draw) + scale^2 * mean(grad))
            let mean = match mg {
                Some(mg) => mx + stds[i] * stds[i] * mg,
                None => mx,
            };
            let tol = 1e-6 * (mx.abs() + (mean - mx).abs() + stds[i]);
            if (mu[i] - mean).abs() > tol {
                return Err(format!("coordinate {i}: reported mean {:e}, the window gives {:e}", mu[i], mean));
            }
            checked += 1;
        }
        Ok(checked)
    }
}

impl Scenario for WindowScenario {
    fn run(&self) -> RunOutcome {
        let mut cfg = self.cfg.clone();
        cfg.keep_evals = true;
        cfg.observe_math = true;
        // statistics needed by the window-content oracle (they do not influence the trajectory)
        match &mut cfg.preset {
            Preset::DiagNuts(s) => {
                s.store_gradient = true;
                s.adapt_options.mass_matrix_options.store_mass_matrix = true;
            }
            Preset::DiagMclmc(s) => {
                s.store_gradient = true;
                s.adapt_options.mass_matrix_options.store_mass_matrix = true;
            }
            Preset::LowRankNuts(s) => {
                s.store_gradient = true;
                s.adapt_options.mass_matrix_options.store_mass_matrix = true;
            }
            Preset::LowRankMclmc(s) => {
                s.store_gradient = true;
                s.adapt_options.mass_matrix_options.store_mass_matrix = true;
            }
            _ => {}
        }
        let h = run_chain(&cfg);
        let mut out = RunOutcome { digest: h.digest(), sim_draws: h.draws.len() as u64, sim_evals: h.n_evals, ..Default::default() };
        let pname = cfg.preset.name();
        out.probe(&format!("preset_{pname}"), 1);
        let Some(o) = opts(&cfg.preset) else { return out };
        if h.new_chain != CallResult::Ok || h.set_position != CallResult::Ok {
            return out;
        }
        let Some(init) = h.init_counters else {
            crate::driver::harness_error("C09: hook H4 counters not available");
        };
        let early_end = init.early_end;
        let fws = init.final_window_start;
        // the boundaries themselves follow from the public settings
        if fws > o.num_tune || early_end > o.num_tune {
            out.violate(format!("C09/phase_boundaries/{pname}"), format!("early_end {early_end}, final window start {fws}, num_tune {}", o.num_tune));
            return out;
        }
        // window-content reference (diagonal strategy): the draws and gradients held by the estimator in use
        // and by its background copy; the start point is part of the first window
        let grad_based = match &cfg.preset {
            Preset::DiagNuts(s) => Some(s.adapt_options.mass_matrix_options.use_grad_based_estimate),
            Preset::DiagMclmc(s) => Some(s.adapt_options.mass_matrix_options.use_grad_based_estimate),
            _ => None,
        };
        let lowrank_settings = match &cfg.preset {
            Preset::LowRankNuts(s) => Some(s.adapt_options.mass_matrix_options),
            Preset::LowRankMclmc(s) => Some(s.adapt_options.mass_matrix_options),
            _ => None,
        };
        let mut content: Option<RefWindow> = None;
        if (grad_based.is_some() || lowrank_settings.is_some()) && cfg.reinit_at.is_none() {
            if let Some(e) = h.evals.iter().filter(|e| e.index < h.set_position_evals.1 && !e.returned_err).last() {
                if init.foreground == 1 && init.background == 1 {
                    content = Some(RefWindow { fg: vec![(e.pos.clone(), e.grad.clone())], bg: vec![(e.pos.clone(), e.grad.clone())] });
                }
            }
        }
        let mut prev = init;
        let mut inherited = init.foreground.saturating_sub(init.background); // fg - bg stays constant between switches
        let mut n_switch = 0u64;
        let mut first_change_seen = false;
        for (n, d) in h.draws.iter().enumerate() {
            let n = n as u64;
            let Some(c) = d.counters else { break };
            if n >= o.num_tune || n >= fws {
                // final window / sampling: the estimators are not touched any more
                if c.foreground != prev.foreground || c.background != prev.background || c.window != prev.window {
                    out.violate(
                        format!("C09/estimator_touched_in_final_window/{pname}"),
                        format!("draw {n} (final step-size window starts at {fws}, num_tune {}): counters {:?} -> {:?}", o.num_tune, (prev.foreground, prev.background, prev.window), (c.foreground, c.background, c.window)),
                    );
                    return out;
                }
                out.probe("final_window_draws_checked", 1);
                prev = c;
                continue;
            }
            let is_early = n < early_end;
            // window required for a switch at this draw (the main-phase window never shrinks below what the
            // background already holds when the early phase ends)
            let window_before = if !is_early && n == early_end { prev.window.max(prev.background) } else { prev.window };
            let required = if is_early { o.early_freq } else { window_before };
            // was this draw accepted by the estimators? (public statistics only)
            let good: u64 = if cfg.preset.is_nuts() {
                let idx = d.i64("index_in_trajectory").unwrap_or(0);
                if d.progress.diverging { (idx.abs() > 4) as u64 } else { (idx != 0) as u64 }
            } else if d.progress.diverging {
                (d.progress.num_steps > 4) as u64
            } else {
                1
            };
            let no_switch_expect = (prev.foreground + good, prev.background + good);
            let switch_expect = (prev.background + good, 0u64);
            let switched = if (c.foreground, c.background) == no_switch_expect {
                false
            } else if (c.foreground, c.background) == switch_expect {
                true
            } else {
                out.violate(
                    format!("C09/counters_inconsistent_with_history/{pname}"),
                    format!("draw {n}: estimator counts (foreground, background) {:?} -> {:?}; the draw was {} (index {:?}, diverging {}), so expected {:?} without or {:?} with a switch", (prev.foreground, prev.background), (c.foreground, c.background), if good == 1 { "accepted" } else { "rejected" }, d.i64("index_in_trajectory"), d.progress.diverging, no_switch_expect, switch_expect),
                );
                return out;
            };
            // ---- window content: the transformation reported after this call must be the estimate from
            // exactly the draws of the current foreground window
            if !cfg.preset.is_nuts() && d.progress.diverging {
                content = None; // (MCLMC hands the estimator a state that is not the returned one)
            }
            if let Some(w) = content.as_mut() {
                let mut ok = true;
                if good == 1 {
                    match d.vec("gradient") {
                        Some(g) => {
                            w.fg.push((d.pos.clone(), g.clone()));
                            w.bg.push((d.pos.clone(), g.clone()));
                        }
                        None => ok = false,
                    }
                }
                if switched {
                    w.fg = std::mem::take(&mut w.bg);
                }
                if !ok || w.fg.len() as u64 != c.foreground || w.bg.len() as u64 != c.background {
                    content = None;
                } else if n > 0 && c.foreground >= 3 && lowrank_settings.is_some() {
                    // low-rank strategy: the repository's own estimator (hook H5) applied to exactly the reference
                    // window must give the reported scales and eigenvalues
                    if let (Some(stds), Some(eig)) = (d.vec("mass_matrix_stds"), d.vec("mass_matrix_eigvals")) {
                        let draws: Vec<Vec<f64>> = w.fg.iter().map(|(x, _)| x.clone()).collect();
                        let grads: Vec<Vec<f64>> = w.fg.iter().map(|(_, g)| g.clone()).collect();
                        match nuts_rs::verif::lowrank_estimate(lowrank_settings.unwrap(), &draws, &grads) {
                            None => out.probe("lowrank_window_estimate_rejected", 1),
                            Some((rstds, _mean, rvals, _mu)) => {
                                let close = |a: f64, b: f64| (a - b).abs() <= 1e-9 * (a.abs() + b.abs()) || (a.is_nan() && b.is_nan());
                                let k = d.u64("num_eigenvalues").unwrap_or(0) as usize;
                                let ok = rstds.len() == stds.len() && rstds.iter().zip(stds.iter()).all(|(a, b)| close(*a, *b)) && k == rvals.len() && rvals.iter().zip(eig.iter()).all(|(v, e)| close(v.sqrt(), *e));
                                if !ok && rstds.iter().chain(rvals.iter()).all(|x| x.is_finite() && *x > 0.0) {
                                    out.violate(
                                        format!("C09/transformation_not_from_current_window/{pname}"),
                                        format!("draw {n}: foreground window holds {} accepted draws (background {}), {n_switch} switches so far; reported scales {:?} and {k} eigenvalues {:?}, the estimator applied to exactly the window's draws gives scales {:?} and eigenvalues (sqrt) {:?}", c.foreground, c.background, stds, &eig[..k.min(eig.len())], rstds, rvals.iter().map(|v| v.sqrt()).collect::<Vec<_>>()),
                                    );
                                    return out;
                                }
                                out.probe("lowrank_window_content_updates_checked", 1);
                            }
                        }
                    }
                } else if n > 0 && c.foreground >= 3 {
                    if let (Some(stds), Some(mu)) = (d.vec("mass_matrix_inv"), d.vec("transformation_mu")) {
                        match w.compare(grad_based.unwrap(), &stds, &mu) {
                            Ok(k) => out.probe("window_content_coordinates_checked", k),
                            Err(msg) => {
                                out.violate(
                                    format!("C09/transformation_not_from_current_window/{pname}"),
                                    format!("draw {n}: foreground window holds {} accepted draws (background {}), {n_switch} switches so far; {msg}", c.foreground, c.background),
                                );
                                return out;
                            }
                        }
                    }
                }
            }
            if switched {
                n_switch += 1;
                let bg_pre = c.foreground; // fg after the switch = background right before it
                let next_window = if is_early { o.early_freq } else { c.window };
                if bg_pre < required {
                    out.violate(
                        format!("C09/switch_before_window_full/{pname}"),
                        format!("draw {n}: switched with {bg_pre} draws in the background estimator, window {required} ({})", if is_early { "early phase" } else { "main phase" }),
                    );
                    return out;
                }
                if n + next_window > fws {
                    out.violate(
                        format!("C09/switch_without_room_for_another_window/{pname}"),
                        format!("draw {n}: switched although the next window ({next_window} draws) does not fit before the final step-size window at draw {fws}"),
                    );
                    return out;
                }
                if !is_early {
                    // geometric growth (rounding not pinned down): next in [floor(w*g), ceil(w*g)] or w+1
                    let w = window_before as f64;
                    let lo = ((w * o.growth).floor() as u64).max(window_before + 1).min(((w * o.growth).ceil() as u64).max(window_before + 1));
                    let hi = ((w * o.growth).ceil() as u64).max(window_before + 1);
                    if c.window < lo || c.window > hi {
                        out.violate(format!("C09/window_growth/{pname}"), format!("draw {n}: window {window_before} -> {} with growth factor {}", c.window, o.growth));
                        return out;
                    }
                } else if c.window != prev.window {
                    out.violate(format!("C09/window_changed_in_early_phase/{pname}"), format!("draw {n}: window {} -> {}", prev.window, c.window));
                    return out;
                }
                inherited = c.foreground - c.background;
                out.probe(if is_early { "early_switches" } else { "main_switches" }, 1);
            } else {
                // no switch: both estimators saw the same draw or none
                let dfg = c.foreground as i64 - prev.foreground as i64;
                let dbg = c.background as i64 - prev.background as i64;
                if dfg != dbg || !(dfg == 0 || dfg == 1) {
                    out.violate(format!("C09/estimators_out_of_step/{pname}"), format!("draw {n}: foreground {} -> {}, background {} -> {}", prev.foreground, c.foreground, prev.background, c.background));
                    return out;
                }
                if c.foreground - c.background != inherited {
                    out.violate(format!("C09/stale_draws_in_foreground/{pname}"), format!("draw {n}: foreground - background = {} but {inherited} draws were inherited at the last switch", c.foreground - c.background));
                    return out;
                }
                if dfg == 0 {
                    out.probe("rejected_draws_not_counted", 1);
                }
                // missed switch: window full and even the largest admissible next window still fits
                let next_hi = if is_early { o.early_freq } else { ((window_before as f64 * o.growth).ceil() as u64).max(window_before + 1) };
                if c.background >= required && n + next_hi <= fws {
                    out.violate(
                        format!("C09/missed_switch/{pname}"),
                        format!("draw {n}: background holds {} >= window {required} and another window of {next_hi} fits before draw {fws}, but no switch happened", c.background),
                    );
                    return out;
                }
                if !is_early && n == early_end && c.window != window_before {
                    out.violate(format!("C09/main_window_seed/{pname}"), format!("draw {n}: main-phase window {} (expected max(configured, background) = {window_before})", c.window));
                    return out;
                }
            }
            // first transformation change re-runs the step-size search (same draw call), later ones do not
            let seg = segment(&h, &cfg, d.evals.0, d.evals.1);
            let changed_now = prev.has_initial_mass_matrix && !c.has_initial_mass_matrix;
            if cfg.preset.is_nuts() && !o.fixed_step {
                // (a recoverable failure of the density at the search's start point skips the search: the
                // base-point evaluation is then the last evaluation of the call and returned an error)
                let base_failed = seg.search_base.map(|b| h.evals.iter().any(|e| e.index == b && e.returned_err)).unwrap_or(false);
                let _ = base_failed;
                if changed_now && seg.search_base.is_none() {
                    out.violate(format!("C09/no_step_size_search_after_first_update/{pname}"), format!("draw {n}: first transformation change without a re-run of the step-size search"));
                    return out;
                }
                if !changed_now && seg.search_base.is_some() {
                    out.violate(format!("C09/unexpected_step_size_search/{pname}"), format!("draw {n}: step-size search re-run although this is not the first transformation change (first change seen before: {first_change_seen})"));
                    return out;
                }
                if changed_now {
                    out.probe("first_update_with_search_checked", 1);
                }
            }
            if changed_now {
                first_change_seen = true;
                // the change must be visible as an update event
                // (the low-rank strategy reports a change also when its estimate was rejected as invalid and
                // the transformation kept its previous value: only the diagonal strategy is held to this)
                if matches!(cfg.preset, Preset::DiagNuts(_) | Preset::DiagMclmc(_)) && d.stat("transformation_update_id").is_none() {
                    out.violate(format!("C09/first_update_not_reported/{pname}"), format!("draw {n}"));
                    return out;
                }
            }
            // a switch rebuilds the transformation when the new foreground has >= 3 draws
            let is_diag = matches!(cfg.preset, Preset::DiagNuts(_) | Preset::DiagMclmc(_));
            if is_diag && switched && c.foreground >= 3 && n > 0 && d.stat("transformation_update_id").is_none() {
                out.violate(format!("C09/switch_without_transformation_update/{pname}"), format!("draw {n}: estimators switched (foreground {}) but no transformation update was reported", c.foreground));
                return out;
            }
            prev = c;
        }
        out.probe("switches", n_switch);
        out.nontrivial = n_switch > 0;
        out
    }

    fn shrink(&self) -> Vec<Self> {
        let mut v: Vec<WindowScenario> = shrink_chain_cfg(&self.cfg).into_iter().map(|cfg| WindowScenario { cfg }).collect();
        let nt = self.cfg.preset.num_tune();
        for k in [nt / 2, nt.saturating_sub(1)] {
            if k < nt && k > 0 {
                let mut c = self.cfg.clone();
                c.preset.set_num_tune(k);
                crate::checks::fix_early_window(&mut c.preset, k);
                c.n_calls = k + c.preset.num_draws();
                v.push(WindowScenario { cfg: c });
            }
        }
        v
    }

    fn describe(&self) -> J {
        json!({"preset": self.cfg.preset.name(), "num_tune": self.cfg.preset.num_tune(), "num_draws": self.cfg.preset.num_draws(), "dim": self.cfg.target.dim(),
               "faults": self.cfg.faults.len(), "settings": serde_json::to_value(&self.cfg.preset).unwrap_or(J::Null)})
    }
}
