//! `RefNuts`: index-based reference of the NUTS tree building (doubling, dyadic U-turn checks,
//! biased / uniform progressive sampling, termination), written from the algorithm's definition
//! (DESIGN.md Appendix A). It works on the states delivered by the trajectory tap (hook H3) in
//! generation order and never touches the repository's tree types.

use nuts_rs::verif::TapState;

#[derive(Clone, Debug)]
pub struct AuditOpts {
    pub maxdepth: u64,
    pub mindepth: u64,
    pub check_turning: bool,
    pub extra_doublings: u64,
}

#[derive(Clone, Debug, PartialEq)]
pub enum StopReason {
    /// the whole trajectory (top-level merge) satisfied the U-turn criterion
    Turning,
    /// a balanced sub-trajectory inside the new half satisfied it: that half is rejected as a whole
    SubtreeTurning,
    Divergence,
    MaxDepth,
    Dim0,
}

#[derive(Clone, Debug)]
pub struct Merge {
    /// probability with which the newer sub-tree's draw replaces the older one (>= 1 means certainly)
    pub p: f64,
    pub is_main: bool,
    pub older: (i64, i64),
    pub newer: (i64, i64),
}

#[derive(Clone, Debug)]
pub struct Audit {
    pub depth: u64,
    pub reason: StopReason,
    /// accepted block of indices
    pub block: (i64, i64),
    /// indices generated for a rejected last doubling
    pub rejected: Option<(i64, i64)>,
    pub near_tie: bool,
    /// whether a selection random number is drawn at some merge is decided by the last bit of a weight
    pub weight_tie: bool,
    /// directions of the doublings (true = forward), in order, including a rejected last one
    pub directions: Vec<bool>,
    /// merges in the order in which the implementation has to draw random numbers for them
    pub merges: Vec<Merge>,
    /// index selected by the reference when a selection oracle was supplied
    pub selected: Option<i64>,
}

#[derive(Clone, Debug)]
struct Node {
    lo: i64,
    hi: i64,
    log_size: f64,
    depth: u64,
    draw: i64,
}

enum Stop {
    Divergence,
    Turning(Node),
}

pub fn logaddexp(a: f64, b: f64) -> f64 {
    if a == f64::NEG_INFINITY {
        return b;
    }
    if b == f64::NEG_INFINITY {
        return a;
    }
    let m = a.max(b);
    m + ((a - m).exp() + (b - m).exp()).ln()
}

struct Ctx<'a, 'b> {
    st: &'a [TapState],
    pos: usize,
    e0: f64,
    near_tie: bool,
    weight_tie: bool,
    merges: Vec<Merge>,
    /// selection oracle: called with p < 1, returns whether the newer draw is taken
    select: Option<&'b mut (dyn FnMut(f64) -> bool + 'b)>,
    track_selection: bool,
}

impl<'a, 'b> Ctx<'a, 'b> {
    fn state(&self, index: i64) -> Option<&'a TapState> {
        self.st.iter().find(|s| s.index == index && !s.failed)
    }

    fn turn(&mut self, a: i64, b: i64) -> Result<bool, String> {
        let (a, b) = if a <= b { (a, b) } else { (b, a) };
        let sa = self.state(a).ok_or_else(|| format!("state {a} missing"))?;
        let sb = self.state(b).ok_or_else(|| format!("state {b} missing"))?;
        let mut t1 = 0.0;
        let mut t2 = 0.0;
        let mut n_d = 0.0;
        let mut n_a = 0.0;
        let mut n_b = 0.0;
        for i in 0..sa.y.len() {
            let d = sb.y[i] - sa.y[i];
            t1 += d * sa.v[i];
            t2 += d * sb.v[i];
            n_d += d * d;
            n_a += sa.v[i] * sa.v[i];
            n_b += sb.v[i] * sb.v[i];
        }
        if t1.abs() <= 1e-9 * (n_d * n_a).sqrt() || t2.abs() <= 1e-9 * (n_d * n_b).sqrt() {
            self.near_tie = true;
        }
        Ok(t1 < 0.0 || t2 < 0.0)
    }

    fn leaf(&mut self, expected: i64) -> Result<Result<Node, Stop>, String> {
        if self.pos >= self.st.len() {
            return Err(format!("the implementation generated no state for index {expected}: it stopped before the reference does"));
        }
        let s = &self.st[self.pos];
        self.pos += 1;
        if s.index != expected {
            return Err(format!("state generated at position {} has index {}, expected {expected}", self.pos - 1, s.index));
        }
        if s.divergent || s.failed {
            return Ok(Err(Stop::Divergence));
        }
        Ok(Ok(Node { lo: expected, hi: expected, log_size: -(s.energy - self.e0), depth: 0, draw: expected }))
    }

    /// merge `newer` into `older` with the checks of one `extend`
    fn merge(&mut self, older: Node, newer: Node, forward: bool, check: bool, is_main: bool) -> Result<Result<Node, Stop>, String> {
        let (first, last) = if forward { (older.lo, newer.hi) } else { (newer.lo, older.hi) };
        let mut turning = false;
        if check {
            turning = self.turn(first, last)?;
            if older.depth > 0 {
                if !turning {
                    turning = self.turn(older.hi, newer.hi)?;
                }
                if !turning {
                    turning = self.turn(older.lo, newer.lo)?;
                }
            }
        }
        let log_size = logaddexp(older.log_size, newer.log_size);
        let self_ls = if is_main { older.log_size } else { log_size };
        let p = if newer.log_size >= self_ls { 1.0 } else { (newer.log_size - self_ls).exp() };
        // whether a random number is drawn at all hinges on p < 1: when the older part's weight is lost in the
        // rounding of the log-sum-exp (sub-trees), or the two weights tie (main tree), the last bit decides
        if (is_main && (newer.log_size - self_ls).abs() < 1e-9) || (!is_main && p < 1.0 + 1e-300 && p > 1.0 - 1e-9) {
            self.weight_tie = true;
        }
        self.merges.push(Merge { p, is_main, older: (older.lo, older.hi), newer: (newer.lo, newer.hi) });
        let mut draw = older.draw;
        if self.track_selection {
            let take = if p >= 1.0 {
                true
            } else {
                match self.select.as_mut() {
                    Some(f) => f(p),
                    None => false,
                }
            };
            if take {
                draw = newer.draw;
            }
        }
        let node = Node { lo: older.lo.min(newer.lo), hi: older.hi.max(newer.hi), log_size, depth: older.depth + 1, draw };
        if turning { Ok(Err(Stop::Turning(node))) } else { Ok(Ok(node)) }
    }

    /// build a balanced sub-tree of 2^k leaves outward from `*next`
    fn subtree(&mut self, k: u64, forward: bool, next: &mut i64, check: bool) -> Result<Result<Node, Stop>, String> {
        if k == 0 {
            let r = self.leaf(*next)?;
            *next += if forward { 1 } else { -1 };
            return Ok(r);
        }
        let a = match self.subtree(k - 1, forward, next, check)? {
            Ok(n) => n,
            Err(s) => return Ok(Err(s)),
        };
        let b = match self.subtree(k - 1, forward, next, check)? {
            Ok(n) => n,
            Err(s) => return Ok(Err(s)),
        };
        self.merge(a, b, forward, check, false)
    }
}

/// Audit one trajectory. `states[0]` must be the start state. Returns Err(text) when the recorded
/// states are not a possible execution of the reference at all (wrong order, stopped early).
pub fn audit<'b>(states: &[TapState], dim: usize, o: &AuditOpts, select: Option<&'b mut (dyn FnMut(f64) -> bool + 'b)>) -> Result<Audit, String> {
    if states.is_empty() || !states[0].start {
        return Err("trajectory does not begin with a start state".into());
    }
    let track = select.is_some();
    let mut ctx = Ctx { st: states, pos: 1, e0: states[0].energy, near_tie: false, weight_tie: false, merges: vec![], select, track_selection: track };
    let mut main = Node { lo: 0, hi: 0, log_size: 0.0, depth: 0, draw: 0 };
    let mut directions = vec![];
    let mut rejected = None;
    if dim == 0 {
        return Ok(Audit { depth: 0, reason: StopReason::Dim0, block: (0, 0), rejected: None, near_tie: false, weight_tie: false, directions, merges: vec![], selected: Some(0) });
    }
    let mut reason = StopReason::MaxDepth;
    while main.depth < o.maxdepth {
        if ctx.pos >= states.len() {
            return Err(format!("the implementation stopped after depth {} without a stopping reason (no U-turn, no divergence, maxdepth {})", main.depth, o.maxdepth));
        }
        let idx = states[ctx.pos].index;
        let forward = if idx == main.hi + 1 {
            true
        } else if idx == main.lo - 1 {
            false
        } else {
            return Err(format!("state generated after block [{}, {}] has index {idx}", main.lo, main.hi));
        };
        directions.push(forward);
        let check = o.check_turning && main.depth >= o.mindepth;
        let mut next = idx;
        let first_new = idx;
        let other = match ctx.subtree(main.depth, forward, &mut next, check)? {
            Ok(n) => n,
            Err(Stop::Divergence) => {
                reason = StopReason::Divergence;
                let last = next - if forward { 1 } else { -1 };
                rejected = Some((first_new.min(last), first_new.max(last)));
                break;
            }
            Err(Stop::Turning(_)) => {
                reason = StopReason::SubtreeTurning;
                let last = next - if forward { 1 } else { -1 };
                rejected = Some((first_new.min(last), first_new.max(last)));
                break;
            }
        };
        match ctx.merge(main.clone(), other, forward, check, true)? {
            Ok(n) => main = n,
            Err(Stop::Turning(n)) => {
                main = n;
                reason = StopReason::Turning;
                // extra doublings in the same direction, without any check
                for _ in 0..o.extra_doublings {
                    let mut next = if forward { main.hi + 1 } else { main.lo - 1 };
                    match ctx.subtree(main.depth, forward, &mut next, false)? {
                        Ok(other) => match ctx.merge(main.clone(), other, forward, false, true)? {
                            Ok(n) => main = n,
                            Err(_) => unreachable!(),
                        },
                        Err(Stop::Divergence) => {
                            reason = StopReason::Divergence;
                            break;
                        }
                        Err(Stop::Turning(_)) => unreachable!(),
                    }
                }
                break;
            }
            Err(Stop::Divergence) => unreachable!(),
        }
    }
    if ctx.pos != states.len() {
        return Err(format!(
            "the implementation generated {} more state(s) after the reference stops (reason {:?} at depth {}, block [{}, {}])",
            states.len() - ctx.pos,
            reason,
            main.depth,
            main.lo,
            main.hi
        ));
    }
    Ok(Audit { depth: main.depth, reason, block: (main.lo, main.hi), rejected, near_tie: ctx.near_tie, weight_tie: ctx.weight_tie, directions, merges: ctx.merges, selected: if track { Some(main.draw) } else { None } })
}

/// Split the tap of one draw call into trajectories (each begins with a start state).
pub fn split_trajectories(tap: &[TapState]) -> Vec<&[TapState]> {
    let mut v = vec![];
    let mut begin = None;
    for (i, t) in tap.iter().enumerate() {
        if t.start {
            if let Some(b) = begin {
                v.push(&tap[b..i]);
            }
            begin = Some(i);
        }
    }
    if let Some(b) = begin {
        v.push(&tap[b..]);
    }
    v
}

/// All states of one trajectory are related to their whitened coordinates by ONE affine map `x = F y + mu`
/// with `g_y = F' g_x` (diagonal and low-rank transformations; the kinetic energy kind does not matter). For
/// any three states j, k, m this gives the scalar identity `(x_k - x_j) . g_x,m == (y_k - y_j) . g_y,m`,
/// which needs no knowledge of F. With j = the start state it exposes a start state whose cached whitened
/// position or gradient belongs to an older transformation ("the next trajectory starts from the draw", and
/// the consistency of position map and gradient pull-back), with `logdet` compared on the side.
/// Ok(number of identities checked) or the description of the first one that fails.
pub fn affine_consistency(tr: &[TapState]) -> Result<u64, String> {
    let Some(s0) = tr.first() else { return Ok(0) };
    if !s0.start || s0.failed {
        return Ok(0);
    }
    let fin = |v: &[f64]| v.iter().all(|a| a.is_finite());
    let d = s0.x.len();
    if d == 0 || s0.y.len() != d || s0.gx.len() != d || s0.gy.len() != d || !fin(&s0.x) || !fin(&s0.y) || !fin(&s0.gx) || !fin(&s0.gy) {
        return Ok(0);
    }
    let mut n = 0u64;
    for (pos, sk) in tr.iter().enumerate().skip(1) {
        if sk.failed || sk.start || sk.x.len() != d || sk.y.len() != d || !fin(&sk.x) || !fin(&sk.y) {
            continue;
        }
        if sk.logdet.is_finite() && s0.logdet.is_finite() && (sk.logdet - s0.logdet).abs() > 1e-9 * (1.0 + s0.logdet.abs()) {
            return Err(format!("log-determinant of the start state {:e} differs from the one of state {} of the same trajectory ({:e})", s0.logdet, sk.index, sk.logdet));
        }
        // m = start state (its cached gradient pull-back) and m = this state (the start state's cached position)
        for (which, gx, gy) in [("start", &s0.gx, &s0.gy), ("state", &sk.gx, &sk.gy)] {
            if gx.len() != d || gy.len() != d || !fin(gx) || !fin(gy) {
                continue;
            }
            let (mut lhs, mut rhs, mut mag, mut scale) = (0.0f64, 0.0f64, 0.0f64, 0.0f64);
            for i in 0..d {
                let a = (sk.x[i] - s0.x[i]) * gx[i];
                let b = (sk.y[i] - s0.y[i]) * gy[i];
                lhs += a;
                rhs += b;
                mag += a.abs() + b.abs();
                scale += (sk.x[i].abs() + s0.x[i].abs()) * gx[i].abs() + (sk.y[i].abs() + s0.y[i].abs()) * gy[i].abs();
            }
            if !lhs.is_finite() || !rhs.is_finite() || !scale.is_finite() {
                continue;
            }
            n += 1;
            let tol = 1e-6 * mag + 1e-8 * scale + 1e-280;
            if (lhs - rhs).abs() > tol {
                return Err(format!(
                    "state {} (tap position {pos}), gradient of the {which}: (x_k - x_0).g_x = {lhs:e} but (y_k - y_0).g_y = {rhs:e} (tolerance {tol:e}): the start state and the states the integrator produced are not related to their whitened coordinates by one affine map",
                    sk.index
                ));
            }
        }
    }
    Ok(n)
}
