//! Hash-order seam: the harness binary defines the C symbol `getrandom`. std draws the per-thread
//! `RandomState` keys from it at the first map creation of a thread, so a run that executes in a fresh
//! OS thread seeded from the run seed has hash-map iteration orders that are a function of that seed.
//! Threads that were not seeded (main thread, tokio workers) get real kernel entropy.

use std::cell::Cell;
use std::ffi::{c_uint, c_void};

thread_local! {
    static STATE: Cell<Option<u64>> = const { Cell::new(None) };
}

pub fn seed_thread(seed: u64) {
    STATE.with(|s| s.set(Some(seed ^ 0xA5A5_5A5A_1234_5678)));
}

pub fn unseed_thread() {
    STATE.with(|s| s.set(None));
}

/// # Safety
/// `buf` must be valid for `buflen` bytes (libc contract).
#[unsafe(no_mangle)]
pub unsafe extern "C" fn getrandom(buf: *mut c_void, buflen: usize, flags: c_uint) -> isize {
    let st = STATE.try_with(|s| s.get()).ok().flatten();
    match st {
        Some(mut x) => {
            let out = unsafe { std::slice::from_raw_parts_mut(buf as *mut u8, buflen) };
            for chunk in out.chunks_mut(8) {
                x = x.wrapping_add(0x9E3779B97F4A7C15);
                let mut z = x;
                z = (z ^ (z >> 30)).wrapping_mul(0xBF58476D1CE4E5B9);
                z = (z ^ (z >> 27)).wrapping_mul(0x94D049BB133111EB);
                z ^= z >> 31;
                let b = z.to_le_bytes();
                chunk.copy_from_slice(&b[..chunk.len()]);
            }
            let _ = STATE.try_with(|s| s.set(Some(x)));
            buflen as isize
        }
        None => unsafe { libc::syscall(libc::SYS_getrandom, buf, buflen, flags) as isize },
    }
}
