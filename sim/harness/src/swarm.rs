//! Swarm-style configuration generation: every run draws its own preset, knobs, target and sizes so that
//! no property silently depends on the defaults.

use nuts_rs::{
    DiagMclmcSettings, DiagNutsSettings, FlowMclmcSettings, FlowNutsSettings, KineticEnergyKind,
    LowRankMclmcSettings, LowRankNutsSettings, MclmcTrajectoryKind, StepSizeAdaptMethod,
};

use crate::chain::{ChainCfg, Preset};
use crate::density::{Target, random_target};
use crate::prng::Prng;

#[derive(Clone, Copy, Debug, PartialEq, Eq)]
pub enum PresetKind {
    DiagNuts,
    LowRankNuts,
    FlowNuts,
    DiagMclmc,
    LowRankMclmc,
    FlowMclmc,
}

pub const ALL_PRESETS: [PresetKind; 6] = [
    PresetKind::DiagNuts,
    PresetKind::LowRankNuts,
    PresetKind::FlowNuts,
    PresetKind::DiagMclmc,
    PresetKind::LowRankMclmc,
    PresetKind::FlowMclmc,
];
pub const NUTS_PRESETS: [PresetKind; 3] = [PresetKind::DiagNuts, PresetKind::LowRankNuts, PresetKind::FlowNuts];
pub const MCLMC_PRESETS: [PresetKind; 3] = [PresetKind::DiagMclmc, PresetKind::LowRankMclmc, PresetKind::FlowMclmc];

#[derive(Clone, Debug)]
pub struct SwarmOpts {
    pub presets: Vec<PresetKind>,
    pub max_dim: usize,
    pub allow_dim0: bool,
    pub max_tune: u64,
    pub max_draws: u64,
    pub allow_hard_targets: bool,
    /// randomise adaptation/step-size knobs (else defaults)
    pub randomise_knobs: bool,
    pub allow_tune0: bool,
}

impl Default for SwarmOpts {
    fn default() -> Self {
        SwarmOpts {
            presets: ALL_PRESETS.to_vec(),
            max_dim: 8,
            allow_dim0: false,
            max_tune: 60,
            max_draws: 20,
            allow_hard_targets: true,
            randomise_knobs: true,
            allow_tune0: false,
        }
    }
}

fn step_size_settings(rng: &mut Prng, s: &mut nuts_rs::StepSizeSettings, randomise: bool) {
    if !randomise {
        return;
    }
    s.target_accept = *rng.pick(&[0.6, 0.8, 0.8, 0.9, 0.95]);
    s.initial_step = *rng.pick(&[0.01, 0.1, 0.1, 1.0]);
    s.jitter = match rng.below(3) {
        0 => None,
        1 => Some(0.1),
        _ => Some(rng.uniform(0.01, 0.5)),
    };
    s.adapt_options.method = match rng.below(5) {
        0 => StepSizeAdaptMethod::Adam,
        1 => StepSizeAdaptMethod::Fixed(rng.log_uniform(0.01, 1.0)),
        _ => StepSizeAdaptMethod::DualAverage,
    };
    if rng.chance(0.5) {
        s.adapt_options.dual_average.k = rng.uniform(0.55, 0.95);
        s.adapt_options.dual_average.t0 = rng.uniform(1.0, 20.0);
        s.adapt_options.dual_average.gamma = rng.log_uniform(0.01, 0.5);
        s.adapt_options.dual_average.max_step_size = *rng.pick(&[0.5, 1.0, std::f64::consts::PI, 10.0]);
    }
    if rng.chance(0.3) {
        s.adapt_options.adam.learning_rate = rng.log_uniform(0.005, 0.2);
    }
}

fn euclid_opts<S: std::fmt::Debug + Default>(rng: &mut Prng, a: &mut nuts_rs::EuclideanAdaptOptions<S>, num_tune: u64, randomise: bool) {
    if !randomise {
        return;
    }
    step_size_settings(rng, &mut a.step_size_settings, true);
    a.early_window = *rng.pick(&[0.0, 0.1, 0.3, 0.3, 0.5, 0.8]);
    a.step_size_window = *rng.pick(&[0.0, 0.05, 0.15, 0.15, 0.3, 0.6, 1.0]);
    a.mass_matrix_switch_freq = *rng.pick(&[1, 2, 3, 5, 8, 20, 80]);
    a.early_mass_matrix_switch_freq = *rng.pick(&[1, 2, 3, 5, 10, 20]);
    a.mass_matrix_update_freq = *rng.pick(&[1, 1, 2, 5, 20]);
    a.mass_matrix_window_growth = *rng.pick(&[1.0, 1.2, 1.5, 2.0, 3.0]);
    // GlobalStrategy::new asserts early_end < num_tune: keep the configuration inside the documented domain
    if num_tune > 0 {
        while (a.early_window * num_tune as f64) as u64 >= num_tune {
            a.early_window *= 0.5;
        }
    }
}

fn kinetic(rng: &mut Prng) -> KineticEnergyKind {
    match rng.below(3) {
        0 => KineticEnergyKind::ExactNormal,
        _ => KineticEnergyKind::Euclidean,
    }
}

pub fn gen_preset(rng: &mut Prng, kind: PresetKind, num_tune: u64, num_draws: u64, o: &SwarmOpts) -> Preset {
    let r = o.randomise_knobs;
    macro_rules! nuts_common {
        ($s:ident) => {{
            $s.num_tune = num_tune;
            $s.num_draws = num_draws;
            $s.num_chains = 1;
            if r {
                $s.maxdepth = *rng.pick(&[1, 2, 3, 4, 5, 6, 8, 10]);
                $s.mindepth = if rng.chance(0.2) { rng.below($s.maxdepth + 1) } else { 0 };
                $s.max_energy_error = *rng.pick(&[20.0, 1000.0, 1000.0, 50.0]);
                $s.store_gradient = rng.chance(0.5);
                $s.store_unconstrained = rng.chance(0.5);
                $s.store_transformed = rng.chance(0.5);
                $s.store_divergences = rng.chance(0.5);
                $s.check_turning = !rng.chance(0.1);
                $s.target_integration_time = if rng.chance(0.15) { Some(rng.log_uniform(0.1, 20.0)) } else { None };
                $s.trajectory_kind = kinetic(rng);
                $s.extra_doublings = if rng.chance(0.1) { rng.below(3) } else { 0 };
            }
        }};
    }
    macro_rules! mclmc_common {
        ($s:ident) => {{
            $s.num_tune = num_tune;
            $s.num_draws = num_draws;
            $s.num_chains = 1;
            if r {
                $s.step_size = rng.log_uniform(0.05, 1.5);
                $s.momentum_decoherence_length = rng.log_uniform(0.3, 10.0);
                $s.max_energy_error = *rng.pick(&[20.0, 1000.0, 1000.0, 100.0]);
                $s.store_gradient = rng.chance(0.5);
                $s.store_unconstrained = rng.chance(0.5);
                $s.store_transformed = rng.chance(0.5);
                $s.store_divergences = rng.chance(0.5);
                $s.subsample_frequency = *rng.pick(&[0.0, 0.25, 0.5, 1.0, 1.0, 2.0]);
                $s.dynamic_step_size = rng.chance(0.5);
                $s.trajectory_kind = *rng.pick(&[
                    MclmcTrajectoryKind::Microcanonical,
                    MclmcTrajectoryKind::Euclidean,
                    MclmcTrajectoryKind::EuclideanEarlyThenMicrocanonical,
                ]);
                $s.trajectory_switch_fraction = *rng.pick(&[0.0, 0.1, 0.3, 0.5, 0.9, 1.0]);
                // L = infinity (no refresh) only together with subsample_frequency 0 (one step per draw);
                // otherwise a draw would take 1e6 steps
                if $s.subsample_frequency == 0.0 && rng.chance(0.3) {
                    // (1e300 instead of infinity: "no refresh" all the same, and it survives the JSON replay file)
                    $s.momentum_decoherence_length = 1e300;
                }
            }
        }};
    }
    match kind {
        PresetKind::DiagNuts => {
            let mut s = DiagNutsSettings::default();
            nuts_common!(s);
            euclid_opts(rng, &mut s.adapt_options, num_tune, r);
            if r {
                s.adapt_options.mass_matrix_options.store_mass_matrix = rng.chance(0.5);
                s.adapt_options.mass_matrix_options.use_grad_based_estimate = !rng.chance(0.25);
            }
            Preset::DiagNuts(s)
        }
        PresetKind::LowRankNuts => {
            let mut s = LowRankNutsSettings::default();
            nuts_common!(s);
            euclid_opts(rng, &mut s.adapt_options, num_tune, r);
            if r {
                s.adapt_options.mass_matrix_options.store_mass_matrix = rng.chance(0.5);
                s.adapt_options.mass_matrix_options.gamma = *rng.pick(&[1e-5, 1e-3, 0.1]);
                s.adapt_options.mass_matrix_options.eigval_cutoff = *rng.pick(&[1.2, 2.0, 5.0]);
            }
            Preset::LowRankNuts(s)
        }
        PresetKind::FlowNuts => {
            let mut s = FlowNutsSettings::default();
            nuts_common!(s);
            if r {
                step_size_settings(rng, &mut s.adapt_options.step_size_settings, true);
                s.adapt_options.step_size_window = *rng.pick(&[0.0, 0.07, 0.2, 0.5]);
                s.adapt_options.transform_update_freq = *rng.pick(&[1, 7, 16, 128]);
                s.adapt_options.use_orbit_for_training = rng.chance(0.5);
                s.adapt_options.transform_train_max_energy_error = *rng.pick(&[1.0, 20.0]);
            }
            Preset::FlowNuts(s)
        }
        PresetKind::DiagMclmc => {
            let mut s = DiagMclmcSettings::default();
            mclmc_common!(s);
            euclid_opts(rng, &mut s.adapt_options, num_tune, r);
            if r {
                s.adapt_options.mass_matrix_options.store_mass_matrix = rng.chance(0.5);
            }
            Preset::DiagMclmc(s)
        }
        PresetKind::LowRankMclmc => {
            let mut s = LowRankMclmcSettings::default();
            mclmc_common!(s);
            euclid_opts(rng, &mut s.adapt_options, num_tune, r);
            if r {
                s.adapt_options.mass_matrix_options.store_mass_matrix = rng.chance(0.5);
            }
            Preset::LowRankMclmc(s)
        }
        PresetKind::FlowMclmc => {
            let mut s = FlowMclmcSettings::default();
            mclmc_common!(s);
            if r {
                step_size_settings(rng, &mut s.adapt_options.step_size_settings, true);
                s.adapt_options.step_size_window = *rng.pick(&[0.0, 0.07, 0.2, 0.5]);
                s.adapt_options.transform_update_freq = *rng.pick(&[1, 7, 16, 128]);
                s.adapt_options.use_orbit_for_training = rng.chance(0.5);
            }
            // FlowMclmc feeds the MCLMC acceptance statistic to the step-size adaptation, which drives the
            // step size towards 0 and the number of steps per draw (L/eps) towards 1e6: always use a fixed
            // step size here so that runs stay short (the adaptive combination is covered only up to the
            // evaluation budget).
            s.adapt_options.step_size_settings.adapt_options.method = StepSizeAdaptMethod::Fixed(s.step_size);
            Preset::FlowMclmc(s)
        }
    }
}

pub fn gen_chain_cfg(seed: u64, o: &SwarmOpts) -> ChainCfg {
    let mut rc = Prng::sub(seed, "config");
    let mut rw = Prng::sub(seed, "workload");
    let kind = *rc.pick(&o.presets);
    let is_mclmc = matches!(kind, PresetKind::DiagMclmc | PresetKind::LowRankMclmc | PresetKind::FlowMclmc);
    let min_dim = if is_mclmc { 2 } else if o.allow_dim0 && rc.chance(0.03) { 0 } else { 1 };
    let dim = if min_dim == 0 {
        0
    } else {
        let hi = o.max_dim.max(min_dim);
        if rc.chance(0.8) { rc.usize_in(min_dim, hi.min(8).max(min_dim)) } else { rc.usize_in(min_dim, hi) }
    };
    let min_tune = if o.allow_tune0 { 0 } else { 1 };
    let num_tune = if rc.chance(0.85) { rc.range(min_tune, o.max_tune.min(60).max(min_tune)) } else { rc.range(min_tune, o.max_tune) };
    let num_draws = rc.range(0, o.max_draws);
    let preset = gen_preset(&mut rc, kind, num_tune, num_draws, o);
    let target = random_target(&mut rw, dim, o.allow_hard_targets);
    let init = init_point(&mut rw, &target);
    ChainCfg {
        preset,
        target,
        faults: vec![],
        init,
        chain_seed: rw.next_u64(),
        chain_id: rw.below(4),
        n_calls: num_tune + num_draws,
        keep_evals: false,
        max_evals: 0,
        reinit_at: None,
        observe_math: false,
    }
}

pub fn init_point(rng: &mut Prng, target: &Target) -> Vec<f64> {
    let d = target.dim();
    match target {
        Target::DiagNormal { mu, sigma } => (0..d).map(|i| mu[i] + sigma[i] * rng.uniform(-2.0, 2.0)).collect(),
        Target::DenseNormal { mu, .. } => (0..d).map(|i| mu[i] + rng.uniform(-1.0, 1.0)).collect(),
        Target::StudentT { mu, scale, .. } => (0..d).map(|i| mu[i] + scale[i] * rng.uniform(-1.0, 1.0)).collect(),
        _ => (0..d).map(|_| rng.uniform(-1.0, 1.0)).collect(),
    }
}

/// Generic shrink candidates for a chain configuration.
pub fn shrink_chain_cfg(c: &ChainCfg) -> Vec<ChainCfg> {
    let mut out = vec![];
    // drop faults
    for i in 0..c.faults.len() {
        let mut n = c.clone();
        n.faults.remove(i);
        out.push(n);
    }
    // fewer calls
    if c.n_calls > 0 {
        for k in [c.n_calls / 2, c.n_calls - 1] {
            if k < c.n_calls {
                let mut n = c.clone();
                n.n_calls = k;
                out.push(n);
            }
        }
    }
    // fewer sampling draws / warmup draws
    let (nt, nd) = (c.preset.num_tune(), c.preset.num_draws());
    if nd > 0 {
        let mut n = c.clone();
        n.preset.set_num_draws(nd / 2);
        n.n_calls = n.n_calls.min(nt + nd / 2);
        out.push(n);
    }
    // simpler target
    let d = c.target.dim();
    let std = crate::density::std_normal(d);
    if c.target != std {
        let mut n = c.clone();
        n.target = std;
        n.init = vec![0.1; d];
        out.push(n);
    }
    // smaller dimension (only for the standard normal, where it is well defined)
    if d > 2 && c.target == crate::density::std_normal(d) {
        let mut n = c.clone();
        n.target = crate::density::std_normal(d - 1);
        n.init = c.init[..d - 1].to_vec();
        out.push(n);
    }
    out
}
