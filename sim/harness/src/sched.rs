//! Engine B ("schedsim"), part 1: the harness's own seeded scheduler for shuttle, the fault-injecting
//! model stub and the recording/fault-injecting storage backend.

use std::collections::BTreeMap;
use std::sync::{Arc, Mutex};

use anyhow::{Result, anyhow};
use nuts_rs::verif::{ChainStorage, StorageConfig, TraceStorage};
use nuts_rs::{CpuMath, Math, Model, Progress, Settings, Value};
use serde::{Deserialize, Serialize};
use shuttle::scheduler::{Schedule, Scheduler, Task, TaskId};

use crate::chain::digest_value;
use crate::density::{Fault, SimDensity, Target, new_log};
use crate::prng::{Digest, Prng};

// ------------------------------------------------------------------------------------------------
// scheduler

#[derive(Clone, Debug, Serialize, Deserialize, PartialEq)]
pub enum Personality {
    /// stay on the current task with probability `stick`, else uniform over runnable tasks
    Sticky { stick: f64 },
    /// PCT-like: random priorities, `changes` priority-change points within the first `horizon` steps
    Priority { changes: u32, horizon: u32 },
    /// lowest task id first, never preempt (used for baselines)
    Fifo,
    /// explicit decision list (schedule minimisation / replay): decision i runs task `choices[i]` if it is
    /// runnable; `SCRIPT_STAY`, an exhausted list or a task that is not runnable fall back to the FIFO rule.
    /// `data` are the values of the scheduler's random stream (timer expiries); afterwards every 4th poll fires.
    Script { choices: Vec<u32>, data: Vec<u64> },
}

pub const SCRIPT_STAY: u32 = u32::MAX;

pub struct SeededScheduler {
    pers: Personality,
    rng: Prng,
    data: Prng,
    started: bool,
    step: u64,
    prio: BTreeMap<usize, u64>,
    change_points: Vec<u64>,
    next_low: u64,
    n_data: u64,
    /// digest of the sequence of (chosen task, |runnable|) decisions
    pub trace: Arc<Mutex<SchedTrace>>,
}

#[derive(Default, Debug)]
pub struct SchedTrace {
    pub digest: Digest,
    pub steps: u64,
    pub switches: u64,
    pub max_runnable: usize,
    /// record the decisions (for schedule minimisation)
    pub record: bool,
    pub choices: Vec<u32>,
    pub data: Vec<u64>,
}

impl SeededScheduler {
    pub fn new(pers: Personality, seed: u64, trace: Arc<Mutex<SchedTrace>>) -> Self {
        let mut rng = Prng::sub(seed, "schedule");
        let change_points = match &pers {
            Personality::Priority { changes, horizon } => {
                let mut v: Vec<u64> = (0..*changes).map(|_| rng.below((*horizon).max(1) as u64)).collect();
                v.sort();
                v
            }
            _ => vec![],
        };
        SeededScheduler {
            pers,
            rng,
            data: Prng::sub(seed, "schedule-data"),
            started: false,
            step: 0,
            prio: BTreeMap::new(),
            change_points,
            next_low: 0,
            n_data: 0,
            trace,
        }
    }
}

impl Scheduler for SeededScheduler {
    fn new_execution(&mut self) -> Option<Schedule> {
        if self.started {
            return None;
        }
        self.started = true;
        Some(Schedule::new(0))
    }

    fn next_task(&mut self, runnable: &[&Task], current: Option<TaskId>, is_yielding: bool) -> Option<TaskId> {
        self.step += 1;
        let ids: Vec<usize> = runnable.iter().map(|t| usize::from(t.id())).collect();
        let cur = current.map(usize::from);
        let cur_runnable = cur.map(|c| ids.contains(&c)).unwrap_or(false);
        let fifo = |ids: &Vec<usize>| -> usize {
            if cur_runnable && !is_yielding {
                cur.unwrap()
            } else {
                // lowest id other than a yielding current, if any
                let mut c: Vec<usize> = ids.iter().copied().filter(|i| !(is_yielding && Some(*i) == cur)).collect();
                if c.is_empty() {
                    c = ids.clone();
                }
                *c.iter().min().unwrap()
            }
        };
        let choice = match &self.pers {
            Personality::Fifo => fifo(&ids),
            Personality::Script { choices, .. } => match choices.get((self.step - 1) as usize) {
                Some(c) if *c != SCRIPT_STAY && ids.contains(&(*c as usize)) => *c as usize,
                _ => fifo(&ids),
            },
            Personality::Sticky { stick } => {
                if cur_runnable && !is_yielding && self.rng.chance(*stick) {
                    cur.unwrap()
                } else {
                    let mut c: Vec<usize> = ids.iter().copied().filter(|i| !(is_yielding && Some(*i) == cur)).collect();
                    if c.is_empty() {
                        c = ids.clone();
                    }
                    c[self.rng.below(c.len() as u64) as usize]
                }
            }
            Personality::Priority { .. } => {
                for i in &ids {
                    if !self.prio.contains_key(i) {
                        // high random priorities; demoted tasks get small, decreasing ones
                        let p = (1 << 32) + self.rng.below(1 << 30);
                        self.prio.insert(*i, p);
                    }
                }
                while let Some(cp) = self.change_points.first() {
                    if *cp <= self.step {
                        self.change_points.remove(0);
                        if let Some(c) = cur {
                            self.next_low += 1;
                            self.prio.insert(c, (1 << 20) - self.next_low);
                        }
                    } else {
                        break;
                    }
                }
                // fairness: a yielding (polling) task drops below every other task, otherwise two polling
                // tasks of high priority starve the workers for ever — which no real scheduler does
                if is_yielding {
                    if let Some(c) = cur {
                        self.next_low += 1;
                        self.prio.insert(c, (1 << 20) - self.next_low);
                    }
                }
                let mut c: Vec<usize> = ids.iter().copied().filter(|i| !(is_yielding && Some(*i) == cur)).collect();
                if c.is_empty() {
                    c = ids.clone();
                }
                *c.iter().max_by_key(|i| self.prio[*i]).unwrap()
            }
        };
        let mut t = self.trace.lock().unwrap();
        t.steps += 1;
        if Some(choice) != cur {
            t.switches += 1;
        }
        t.max_runnable = t.max_runnable.max(ids.len());
        t.digest.u64(choice as u64);
        t.digest.u64(ids.len() as u64);
        if t.record {
            t.choices.push(choice as u32);
        }
        Some(TaskId::from(choice))
    }

    fn next_u64(&mut self) -> u64 {
        let j = self.n_data;
        self.n_data += 1;
        let v = match &self.pers {
            Personality::Script { data, .. } => data.get(j as usize).copied().unwrap_or(j),
            _ => self.data.next_u64(),
        };
        let mut t = self.trace.lock().unwrap();
        if t.record {
            t.data.push(v);
        }
        v
    }
}

// ------------------------------------------------------------------------------------------------
// per-task initialisation bookkeeping (one OS thread per execution => thread-local)

#[derive(Default, Clone, Debug)]
pub struct TaskInit {
    pub attempts_since_math: u32,
    pub last_unrecoverable: Option<String>,
}

thread_local! {
    pub static TASK_INIT: std::cell::RefCell<BTreeMap<usize, TaskInit>> = const { std::cell::RefCell::new(BTreeMap::new()) };
    /// labels of unrecoverable density faults after which the same chain made another init attempt
    pub static RETRIED: std::cell::RefCell<Vec<String>> = const { std::cell::RefCell::new(Vec::new()) };
}

pub fn reset_task_init() {
    TASK_INIT.with(|m| m.borrow_mut().clear());
    RETRIED.with(|m| m.borrow_mut().clear());
}

fn current_task() -> usize {
    shuttle::current::get_current_task().map(usize::from).unwrap_or(usize::MAX)
}

/// called by the density stub (engine B only) when an unrecoverable fault fires
pub fn note_unrecoverable(label: String) {
    let t = current_task();
    TASK_INIT.with(|m| m.borrow_mut().entry(t).or_default().last_unrecoverable = Some(label));
}

// ------------------------------------------------------------------------------------------------
// model stub

#[derive(Clone, Debug, Serialize, Deserialize, PartialEq)]
pub struct ModelCfg {
    pub target: Target,
    /// init_position: fixed point (no rng use) or drawn from the chain's rng
    pub random_init: bool,
    /// density faults: (instance = order of Model::math calls that produced a chain density, fault)
    pub density_faults: Vec<(u32, Fault)>,
    /// Model::math fails at these call numbers (0 = the controller's call)
    pub math_fail_calls: Vec<u32>,
    /// the first n init_position calls of every instance produce a point the sampler must reject
    /// (non-finite), u32::MAX = all of them
    pub bad_init_first: u32,
    /// init_position itself returns Err at this call number (counted over all instances)
    pub init_err_call: Option<u32>,
    /// per-instance simulated cost of one density evaluation, ns (chains of different speed)
    pub eval_cost_ns: Vec<u64>,
}

pub struct SimModel {
    pub cfg: ModelCfg,
    pub state: Mutex<ModelState>,
}

#[derive(Default, Debug)]
pub struct ModelState {
    pub math_calls: u32,
    pub init_calls: u32,
    pub faults_fired: Vec<String>,
    pub logs: Vec<crate::density::SharedLog>,
}

impl SimModel {
    pub fn new(cfg: ModelCfg) -> Self {
        SimModel {
            cfg,
            state: Mutex::new(ModelState::default()),
        }
    }
}

impl Model for SimModel {
    type Math<'model> = CpuMath<SimDensity>;

    fn math<R: rand::Rng + ?Sized>(&self, _rng: &mut R) -> Result<Self::Math<'_>> {
        let mut st = self.state.lock().unwrap();
        let call = st.math_calls;
        st.math_calls += 1;
        TASK_INIT.with(|m| {
            m.borrow_mut().insert(current_task(), TaskInit::default());
        });
        if self.cfg.math_fail_calls.contains(&call) {
            st.faults_fired.push(format!("model_math_fail@{call}"));
            return Err(anyhow!("simulated Model::math failure at call {call}"));
        }
        // instance numbering: call 0 is the controller's (schema only), chain densities are 1..
        let instance = call;
        let faults: Vec<Fault> = self.cfg.density_faults.iter().filter(|(i, _)| *i == instance).map(|(_, f)| f.clone()).collect();
        let log = new_log(false);
        st.logs.push(log.clone());
        let mut d = SimDensity::new(self.cfg.target.clone(), faults, log);
        if !self.cfg.eval_cost_ns.is_empty() {
            d.eval_cost_ns = self.cfg.eval_cost_ns[(instance as usize) % self.cfg.eval_cost_ns.len()];
        }
        d.instance = Some(instance);
        Ok(CpuMath::new(d))
    }

    fn init_position<R: rand::Rng + ?Sized>(&self, rng: &mut R, position: &mut [f64]) -> Result<()> {
        TASK_INIT.with(|m| {
            let mut m = m.borrow_mut();
            let e = m.entry(current_task()).or_default();
            e.attempts_since_math += 1;
            if e.attempts_since_math >= 2 {
                if let Some(l) = e.last_unrecoverable.take() {
                    RETRIED.with(|r| r.borrow_mut().push(l));
                }
            }
        });
        let call = {
            let mut st = self.state.lock().unwrap();
            let c = st.init_calls;
            st.init_calls += 1;
            if self.cfg.init_err_call == Some(c) {
                st.faults_fired.push(format!("init_position_err@{c}"));
                return Err(anyhow!("simulated init_position failure at call {c}"));
            }
            c
        };
        let _ = call;
        if self.cfg.random_init {
            for x in position.iter_mut() {
                let u = (rng.next_u64() >> 11) as f64 / (1u64 << 53) as f64;
                *x = 2.0 * u - 1.0;
            }
        } else {
            for (i, x) in position.iter_mut().enumerate() {
                *x = 0.1 * (i as f64 + 1.0);
            }
        }
        Ok(())
    }
}

/// Wrapper model: counts init attempts *per chain thread* so that "the first n attempts fail" is a
/// per-chain notion independent of the schedule. The attempt counter lives in the density instance's
/// log (one per chain).
pub struct BadInitModel {
    pub inner: SimModel,
    pub per_task_attempts: Mutex<BTreeMap<usize, u32>>,
}

impl Model for BadInitModel {
    type Math<'model> = CpuMath<SimDensity>;
    fn math<R: rand::Rng + ?Sized>(&self, rng: &mut R) -> Result<Self::Math<'_>> {
        self.inner.math(rng)
    }
    fn init_position<R: rand::Rng + ?Sized>(&self, rng: &mut R, position: &mut [f64]) -> Result<()> {
        self.inner.init_position(rng, position)?;
        let task: usize = shuttle::current::get_current_task().map(usize::from).unwrap_or(0);
        let mut m = self.per_task_attempts.lock().unwrap();
        let a = m.entry(task).or_insert(0);
        let attempt = *a;
        *a += 1;
        drop(m);
        if attempt < self.inner.cfg.bad_init_first {
            if !position.is_empty() {
                position[0] = f64::NAN;
            }
            let mut st = self.inner.state.lock().unwrap();
            if attempt == 0 {
                st.faults_fired.push(format!("bad_init_first_{}", if self.inner.cfg.bad_init_first == u32::MAX { "all".to_string() } else { self.inner.cfg.bad_init_first.to_string() }));
            }
        }
        Ok(())
    }
}

// ------------------------------------------------------------------------------------------------
// recording storage backend

#[derive(Clone, Debug, Serialize, Deserialize, PartialEq, Default)]
pub struct StoreFaults {
    /// record_sample of chain c fails at its k-th call
    pub record_err: Vec<(u64, u64)>,
    /// flush fails at its k-th call (counted over all chains)
    pub flush_err_call: Option<u64>,
    /// chain finalize of chain c fails
    pub chain_finalize_err: Vec<u64>,
    /// trace-level finalize fails
    pub trace_finalize_err: bool,
    /// chain inspect of chain c fails
    pub chain_inspect_err: Vec<u64>,
    pub trace_inspect_err: bool,
    pub new_trace_err: bool,
    /// initialize_trace_for_chain(c) fails
    pub init_chain_err: Vec<u64>,
}

impl StoreFaults {
    pub fn any(&self) -> bool {
        *self != StoreFaults::default()
    }
}

#[derive(Clone, Debug)]
pub struct RecordEvent {
    pub seq: u64,
    pub chain: u64,
    pub digest: u64,
    /// digest without the chain id (statistic `chain`, Progress.chain): equal for two chains that
    /// produced the same draws
    pub digest_nochain: u64,
    pub draw: u64,
    pub tuning: bool,
    pub diverging: bool,
    pub num_steps: u64,
}

#[derive(Default, Debug)]
pub struct Recorder {
    pub records: Vec<RecordEvent>,
    pub flush_calls: u64,
    /// (chain, event sequence number) of every ChainStorage::flush / finalize call
    pub flush_events: Vec<(u64, u64)>,
    pub finalize_events: Vec<(u64, u64)>,
    pub faults_fired: Vec<String>,
    pub finalized_chains: Vec<u64>,
    pub trace_finalized: bool,
    pub inspect_calls: u64,
}

pub type SharedRecorder = Arc<Mutex<Recorder>>;

/// A real storage backend of the repository that the recording storage forwards every call to (tee), so
/// that the sampler's commands and interleavings also hit real backend code (C10: "... and storage
/// backends"). Only in-memory backends without threads of their own.
#[derive(Clone, Copy, Debug, Serialize, Deserialize, PartialEq, Default)]
pub enum RealBackend {
    #[default]
    None,
    HashMap,
    Ndarray,
}

type HmTrace = <nuts_rs::HashMapConfig as StorageConfig>::Storage;
type HmChain = <HmTrace as TraceStorage>::ChainStorage;
type HmChainFinal = <HmChain as ChainStorage>::Finalized;
type NdTrace = <nuts_rs::NdarrayConfig as StorageConfig>::Storage;
type NdChain = <NdTrace as TraceStorage>::ChainStorage;
type NdChainFinal = <NdChain as ChainStorage>::Finalized;

enum RealTrace {
    None,
    HashMap(HmTrace),
    Ndarray(NdTrace),
}

enum RealChain {
    None,
    HashMap(HmChain),
    Ndarray(NdChain),
}

pub enum RealChainFinal {
    None,
    HashMap(HmChainFinal),
    Ndarray(NdChainFinal),
}

pub struct RecChainFinal {
    pub id: u64,
    pub digests: Vec<u64>,
    pub real: RealChainFinal,
}

pub struct RecConfig {
    pub rec: SharedRecorder,
    pub faults: StoreFaults,
    pub backend: RealBackend,
}

pub struct RecTrace {
    rec: SharedRecorder,
    faults: StoreFaults,
    real: RealTrace,
}

pub struct RecChain {
    rec: SharedRecorder,
    faults: StoreFaults,
    chain: u64,
    calls: u64,
    digests: Vec<u64>,
    real: RealChain,
}

/// What a finalized / inspected trace looks like: per chain the digests of the recorded draws.
#[derive(Clone, Debug, Default, PartialEq)]
pub struct RecFinal {
    pub chains: Vec<(u64, Vec<u64>)>,
    /// digest of what the real backend returned (Err: the backend's call failed)
    pub real: Option<std::result::Result<u64, String>>,
}

fn canon_bits(x: f64) -> u64 {
    if x.is_nan() { f64::NAN.to_bits() } else { x.to_bits() }
}

fn digest_hashmap(res: &[nuts_rs::verif::HashMapResult]) -> u64 {
    use nuts_rs::HashMapValue as V;
    let mut d = Digest::new();
    for (c, r) in res.iter().enumerate() {
        d.u64(c as u64);
        for (g, m) in [("stats", &r.stats), ("draws", &r.draws)] {
            let mut keys: Vec<&String> = m.keys().collect();
            keys.sort();
            for k in keys {
                d.str(g);
                d.str(k);
                match &m[k] {
                    V::F64(v) => v.iter().for_each(|x| d.u64(canon_bits(*x))),
                    V::F32(v) => v.iter().for_each(|x| d.u64(canon_bits(*x as f64))),
                    V::Bool(v) => v.iter().for_each(|x| d.bool(*x)),
                    V::I64(v) => v.iter().for_each(|x| d.u64(*x as u64)),
                    V::U64(v) => v.iter().for_each(|x| d.u64(*x)),
                    V::String(v) => v.iter().for_each(|x| d.str(x)),
                }
            }
        }
    }
    d.0
}

fn digest_ndarray(t: &nuts_rs::NdarrayTrace) -> u64 {
    use nuts_rs::NdarrayValue as V;
    let mut d = Digest::new();
    for (g, m) in [("stats", &t.stats), ("draws", &t.draws)] {
        let mut keys: Vec<&String> = m.keys().collect();
        keys.sort();
        for k in keys {
            d.str(g);
            d.str(k);
            match &m[k] {
                V::F64(v) => { v.shape().iter().for_each(|x| d.u64(*x as u64)); v.iter().for_each(|x| d.u64(canon_bits(*x))) }
                V::F32(v) => { v.shape().iter().for_each(|x| d.u64(*x as u64)); v.iter().for_each(|x| d.u64(canon_bits(*x as f64))) }
                V::Bool(v) => { v.shape().iter().for_each(|x| d.u64(*x as u64)); v.iter().for_each(|x| d.bool(*x)) }
                V::I64(v) => { v.shape().iter().for_each(|x| d.u64(*x as u64)); v.iter().for_each(|x| d.u64(*x as u64)) }
                V::U64(v) => { v.shape().iter().for_each(|x| d.u64(*x as u64)); v.iter().for_each(|x| d.u64(*x)) }
                V::String(v) => { v.shape().iter().for_each(|x| d.u64(*x as u64)); v.iter().for_each(|x| d.str(x)) }
            }
        }
    }
    d.0
}

impl StorageConfig for RecConfig {
    type Storage = RecTrace;
    fn new_trace<M: Math>(self, settings: &impl Settings, math: &M) -> Result<RecTrace> {
        if self.faults.new_trace_err {
            self.rec.lock().unwrap().faults_fired.push("new_trace_err".into());
            return Err(anyhow!("simulated new_trace failure"));
        }
        let real = match self.backend {
            RealBackend::None => RealTrace::None,
            RealBackend::HashMap => RealTrace::HashMap(nuts_rs::HashMapConfig::new().new_trace(settings, math)?),
            RealBackend::Ndarray => RealTrace::Ndarray(nuts_rs::NdarrayConfig::new().new_trace(settings, math)?),
        };
        Ok(RecTrace {
            rec: self.rec,
            faults: self.faults,
            real,
        })
    }
}

impl TraceStorage for RecTrace {
    type ChainStorage = RecChain;
    type Finalized = RecFinal;

    fn initialize_trace_for_chain(&self, chain_id: u64) -> Result<RecChain> {
        if self.faults.init_chain_err.contains(&chain_id) {
            self.rec.lock().unwrap().faults_fired.push(format!("init_chain_err@{chain_id}"));
            return Err(anyhow!("simulated initialize_trace_for_chain failure for chain {chain_id}"));
        }
        let real = match &self.real {
            RealTrace::None => RealChain::None,
            RealTrace::HashMap(t) => RealChain::HashMap(t.initialize_trace_for_chain(chain_id)?),
            RealTrace::Ndarray(t) => RealChain::Ndarray(t.initialize_trace_for_chain(chain_id)?),
        };
        Ok(RecChain {
            rec: self.rec.clone(),
            faults: self.faults.clone(),
            chain: chain_id,
            calls: 0,
            digests: vec![],
            real,
        })
    }

    fn finalize(self, traces: Vec<Result<RecChainFinal>>) -> Result<(Option<anyhow::Error>, RecFinal)> {
        let mut rec = self.rec.lock().unwrap();
        rec.trace_finalized = true;
        if self.faults.trace_finalize_err {
            rec.faults_fired.push("trace_finalize_err".into());
            return Err(anyhow!("simulated trace finalize failure"));
        }
        drop(rec);
        let mut err = None;
        let mut chains = vec![];
        let mut hm: Vec<Result<HmChainFinal>> = vec![];
        let mut nd: Vec<Result<NdChainFinal>> = vec![];
        for t in traces {
            match t {
                Ok(c) => {
                    chains.push((c.id, c.digests));
                    match c.real {
                        RealChainFinal::None => {}
                        RealChainFinal::HashMap(x) => hm.push(Ok(x)),
                        RealChainFinal::Ndarray(x) => nd.push(Ok(x)),
                    }
                }
                Err(e) => {
                    if err.is_none() {
                        err = Some(e)
                    }
                }
            }
        }
        chains.sort_by_key(|c| c.0);
        let real = match self.real {
            RealTrace::None => None,
            RealTrace::HashMap(t) => Some(match t.finalize(hm) {
                Ok((None, f)) => Ok(digest_hashmap(&f)),
                Ok((Some(e), _)) => Err(format!("{e:#}")),
                Err(e) => Err(format!("{e:#}")),
            }),
            RealTrace::Ndarray(t) => Some(match t.finalize(nd) {
                Ok((None, f)) => Ok(digest_ndarray(&f)),
                Ok((Some(e), _)) => Err(format!("{e:#}")),
                Err(e) => Err(format!("{e:#}")),
            }),
        };
        Ok((err, RecFinal { chains, real }))
    }

    fn inspect(&self, traces: Vec<Result<Option<RecChainFinal>>>) -> Result<(Option<anyhow::Error>, RecFinal)> {
        let mut rec = self.rec.lock().unwrap();
        rec.inspect_calls += 1;
        if self.faults.trace_inspect_err {
            rec.faults_fired.push("trace_inspect_err".into());
            return Err(anyhow!("simulated trace inspect failure"));
        }
        drop(rec);
        let mut err = None;
        let mut chains = vec![];
        let mut hm: Vec<Result<Option<HmChainFinal>>> = vec![];
        let mut nd: Vec<Result<Option<NdChainFinal>>> = vec![];
        for t in traces {
            match t {
                Ok(Some(c)) => {
                    chains.push((c.id, c.digests));
                    match c.real {
                        RealChainFinal::None => {}
                        RealChainFinal::HashMap(x) => hm.push(Ok(Some(x))),
                        RealChainFinal::Ndarray(x) => nd.push(Ok(Some(x))),
                    }
                }
                Ok(None) => {}
                Err(e) => {
                    if err.is_none() {
                        err = Some(e)
                    }
                }
            }
        }
        chains.sort_by_key(|c| c.0);
        let real = match &self.real {
            RealTrace::None => None,
            RealTrace::HashMap(t) => Some(match t.inspect(hm) {
                Ok((None, f)) => Ok(digest_hashmap(&f)),
                Ok((Some(e), _)) => Err(format!("{e:#}")),
                Err(e) => Err(format!("{e:#}")),
            }),
            RealTrace::Ndarray(t) => Some(match t.inspect(nd) {
                Ok((None, f)) => Ok(digest_ndarray(&f)),
                Ok((Some(e), _)) => Err(format!("{e:#}")),
                Err(e) => Err(format!("{e:#}")),
            }),
        };
        Ok((err, RecFinal { chains, real }))
    }
}

pub fn record_digest(stats: &[(&str, Option<Value>)], draws: &[(&str, Option<Value>)], info: &Progress, with_chain: bool) -> u64 {
    let mut d = Digest::new();
    for (n, v) in stats {
        if !with_chain && *n == "chain" {
            continue;
        }
        d.str(n);
        digest_value(&mut d, v);
    }
    for (n, v) in draws {
        d.str(n);
        digest_value(&mut d, v);
    }
    d.u64(info.draw);
    if with_chain {
        d.u64(info.chain);
    }
    d.bool(info.diverging);
    d.bool(info.tuning);
    d.f64(info.step_size);
    d.u64(info.num_steps);
    d.0
}

impl ChainStorage for RecChain {
    type Finalized = RecChainFinal;

    fn record_sample(
        &mut self,
        settings: &impl Settings,
        stats: Vec<(&str, Option<Value>)>,
        draws: Vec<(&str, Option<Value>)>,
        info: &Progress,
    ) -> Result<()> {
        let k = self.calls;
        self.calls += 1;
        if self.faults.record_err.contains(&(self.chain, k)) {
            self.rec.lock().unwrap().faults_fired.push(format!("record_err@{}:{k}", self.chain));
            return Err(anyhow!("simulated record_sample failure chain {} call {k}", self.chain));
        }
        let digest = record_digest(&stats, &draws, info, true);
        let digest_nochain = record_digest(&stats, &draws, info, false);
        // tee to the real backend first: its error is the call's error
        match &mut self.real {
            RealChain::None => {}
            RealChain::HashMap(c) => c.record_sample(settings, stats.clone(), draws.clone(), info)?,
            RealChain::Ndarray(c) => c.record_sample(settings, stats.clone(), draws.clone(), info)?,
        }
        self.digests.push(digest);
        let seq = nuts_rs_verif_rt::clock::next_event();
        self.rec.lock().unwrap().records.push(RecordEvent {
            seq,
            chain: self.chain,
            digest,
            digest_nochain,
            draw: info.draw,
            tuning: info.tuning,
            diverging: info.diverging,
            num_steps: info.num_steps,
        });
        Ok(())
    }

    fn finalize(self) -> Result<Self::Finalized> {
        let mut rec = self.rec.lock().unwrap();
        rec.finalized_chains.push(self.chain);
        let seq = nuts_rs_verif_rt::clock::next_event();
        rec.finalize_events.push((self.chain, seq));
        if self.faults.chain_finalize_err.contains(&self.chain) {
            rec.faults_fired.push(format!("chain_finalize_err@{}", self.chain));
            return Err(anyhow!("simulated chain finalize failure chain {}", self.chain));
        }
        drop(rec);
        let real = match self.real {
            RealChain::None => RealChainFinal::None,
            RealChain::HashMap(c) => RealChainFinal::HashMap(c.finalize()?),
            RealChain::Ndarray(c) => RealChainFinal::Ndarray(c.finalize()?),
        };
        Ok(RecChainFinal { id: self.chain, digests: self.digests, real })
    }

    fn inspect(&self) -> Result<Option<Self::Finalized>> {
        if self.faults.chain_inspect_err.contains(&self.chain) {
            self.rec.lock().unwrap().faults_fired.push(format!("chain_inspect_err@{}", self.chain));
            return Err(anyhow!("simulated chain inspect failure chain {}", self.chain));
        }
        let real = match &self.real {
            RealChain::None => RealChainFinal::None,
            RealChain::HashMap(c) => match c.inspect()? {
                Some(x) => RealChainFinal::HashMap(x),
                None => RealChainFinal::None,
            },
            RealChain::Ndarray(c) => match c.inspect()? {
                Some(x) => RealChainFinal::Ndarray(x),
                None => RealChainFinal::None,
            },
        };
        Ok(Some(RecChainFinal { id: self.chain, digests: self.digests.clone(), real }))
    }

    fn flush(&self) -> Result<()> {
        let mut rec = self.rec.lock().unwrap();
        let k = rec.flush_calls;
        rec.flush_calls += 1;
        let seq = nuts_rs_verif_rt::clock::next_event();
        rec.flush_events.push((self.chain, seq));
        if self.faults.flush_err_call == Some(k) {
            rec.faults_fired.push(format!("flush_err@{k}"));
            return Err(anyhow!("simulated flush failure at call {k}"));
        }
        drop(rec);
        match &self.real {
            RealChain::None => Ok(()),
            RealChain::HashMap(c) => c.flush(),
            RealChain::Ndarray(c) => c.flush(),
        }
    }
}
