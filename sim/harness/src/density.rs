//! Stub densities (the user's side of the API) with a fault injector keyed by evaluation index, an
//! evaluation log, and a stub affine "flow" so the Flow presets can run.

use std::collections::HashMap;
use std::sync::{Arc, Mutex};

use nuts_rs::{CpuLogpFunc, CpuMathError, HasDims, LogpError};
use serde::{Deserialize, Serialize};
use thiserror::Error;

use crate::prng::Prng;

#[derive(Debug, Error)]
pub enum SimLogpError {
    #[error("simulated recoverable logp error at evaluation {0}")]
    Recoverable(u64),
    /// a recoverable error whose Display text is empty (a foreign exception raised without a message)
    #[error("")]
    RecoverableSilent(u64),
    #[error("simulated unrecoverable logp error at evaluation {0}")]
    Unrecoverable(u64),
}

impl LogpError for SimLogpError {
    fn is_recoverable(&self) -> bool {
        matches!(self, SimLogpError::Recoverable(_) | SimLogpError::RecoverableSilent(_))
    }
}

#[derive(Debug, Clone, Copy, PartialEq, Eq, Hash, Serialize, Deserialize)]
pub enum FaultKind {
    RecoverableErr,
    UnrecoverableErr,
    NanLogp,
    PosInfLogp,
    NegInfLogp,
    NanGrad,
    InfGrad,
    EnergyJump,
}

impl FaultKind {
    pub const ALL: [FaultKind; 8] = [
        FaultKind::RecoverableErr,
        FaultKind::UnrecoverableErr,
        FaultKind::NanLogp,
        FaultKind::PosInfLogp,
        FaultKind::NegInfLogp,
        FaultKind::NanGrad,
        FaultKind::InfGrad,
        FaultKind::EnergyJump,
    ];
    pub fn name(&self) -> &'static str {
        match self {
            FaultKind::RecoverableErr => "recoverable_err",
            FaultKind::UnrecoverableErr => "unrecoverable_err",
            FaultKind::NanLogp => "nan_logp",
            FaultKind::PosInfLogp => "posinf_logp",
            FaultKind::NegInfLogp => "neginf_logp",
            FaultKind::NanGrad => "nan_grad",
            FaultKind::InfGrad => "inf_grad",
            FaultKind::EnergyJump => "energy_jump",
        }
    }
    pub fn is_unrecoverable(&self) -> bool {
        matches!(self, FaultKind::UnrecoverableErr)
    }
}

#[derive(Debug, Clone, Serialize, Deserialize, PartialEq)]
pub struct Fault {
    /// evaluation index (0-based, counted from the first evaluation of this density instance)
    pub at: u64,
    pub kind: FaultKind,
}

/// The target families. All have exact gradients.
#[derive(Debug, Clone, Serialize, Deserialize, PartialEq)]
pub enum Target {
    /// independent normals N(mu_i, sigma_i^2)
    DiagNormal { mu: Vec<f64>, sigma: Vec<f64> },
    /// N(mu, Sigma) given by its dense precision matrix (row-major) P = Sigma^-1
    DenseNormal { mu: Vec<f64>, prec: Vec<f64> },
    /// independent Student-t with nu degrees of freedom, location mu, scale s
    StudentT { nu: f64, mu: Vec<f64>, scale: Vec<f64> },
    /// Neal's funnel: v ~ N(0, 3^2), x_i ~ N(0, exp(v)) (natural divergences)
    Funnel { dim: usize },
    /// banana: x0 ~ N(0,1), x1 | x0 ~ N(b*x0^2, 1), rest N(0,1)
    Banana { dim: usize, b: f64 },
    /// diag normal with one coordinate whose density is flat (zero gradient there)
    FlatCoord { sigma: Vec<f64>, flat: usize },
    /// skewed product target: each coordinate log-gamma-like: logp = a*x - exp(x) (x = log Gamma(a,1))
    LogGamma { a: Vec<f64> },
    /// first coordinate N(0, s^2), the others Laplace(0, b): piecewise-linear log density (constant
    /// gradient on each side)
    NormalLaplace { s: f64, b: Vec<f64> },
}

impl Target {
    pub fn dim(&self) -> usize {
        match self {
            Target::DiagNormal { mu, .. } => mu.len(),
            Target::DenseNormal { mu, .. } => mu.len(),
            Target::StudentT { mu, .. } => mu.len(),
            Target::Funnel { dim } => *dim,
            Target::Banana { dim, .. } => *dim,
            Target::FlatCoord { sigma, .. } => sigma.len(),
            Target::LogGamma { a } => a.len(),
            Target::NormalLaplace { b, .. } => b.len() + 1,
        }
    }

    pub fn is_gaussian(&self) -> bool {
        matches!(self, Target::DiagNormal { .. } | Target::DenseNormal { .. })
    }

    pub fn logp(&self, x: &[f64], g: &mut [f64]) -> f64 {
        match self {
            Target::DiagNormal { mu, sigma } => {
                let mut lp = 0.0;
                for i in 0..x.len() {
                    let z = (x[i] - mu[i]) / sigma[i];
                    lp += -0.5 * z * z;
                    g[i] = -z / sigma[i];
                }
                lp
            }
            Target::DenseNormal { mu, prec } => {
                let n = x.len();
                let mut lp = 0.0;
                for i in 0..n {
                    let mut acc = 0.0;
                    for j in 0..n {
                        acc += prec[i * n + j] * (x[j] - mu[j]);
                    }
                    g[i] = -acc;
                    lp += -0.5 * (x[i] - mu[i]) * acc;
                }
                lp
            }
            Target::StudentT { nu, mu, scale } => {
                let mut lp = 0.0;
                for i in 0..x.len() {
                    let z = (x[i] - mu[i]) / scale[i];
                    lp += -0.5 * (nu + 1.0) * (1.0 + z * z / nu).ln();
                    g[i] = -(nu + 1.0) * z / (nu + z * z) / scale[i];
                }
                lp
            }
            Target::Funnel { dim } => {
                let v = x[0];
                let mut lp = -0.5 * v * v / 9.0;
                g[0] = -v / 9.0;
                let ev = (-v).exp();
                for i in 1..*dim {
                    lp += -0.5 * x[i] * x[i] * ev - 0.5 * v;
                    g[i] = -x[i] * ev;
                    g[0] += 0.5 * x[i] * x[i] * ev - 0.5;
                }
                lp
            }
            Target::Banana { dim, b } => {
                let mut lp = -0.5 * x[0] * x[0];
                g[0] = -x[0];
                if *dim > 1 {
                    let r = x[1] - b * x[0] * x[0];
                    lp += -0.5 * r * r;
                    g[1] = -r;
                    g[0] += 2.0 * b * x[0] * r;
                }
                for i in 2..*dim {
                    lp += -0.5 * x[i] * x[i];
                    g[i] = -x[i];
                }
                lp
            }
            Target::FlatCoord { sigma, flat } => {
                let mut lp = 0.0;
                for i in 0..x.len() {
                    if i == *flat {
                        g[i] = 0.0;
                    } else {
                        let z = x[i] / sigma[i];
                        lp += -0.5 * z * z;
                        g[i] = -z / sigma[i];
                    }
                }
                lp
            }
            Target::LogGamma { a } => {
                let mut lp = 0.0;
                for i in 0..x.len() {
                    let e = x[i].exp();
                    lp += a[i] * x[i] - e;
                    g[i] = a[i] - e;
                }
                lp
            }
            Target::NormalLaplace { s, b } => {
                let z = x[0] / s;
                let mut lp = -0.5 * z * z;
                g[0] = -z / s;
                for i in 0..b.len() {
                    lp += -x[i + 1].abs() / b[i];
                    g[i + 1] = if x[i + 1] >= 0.0 { -1.0 / b[i] } else { 1.0 / b[i] };
                }
                lp
            }
        }
    }
}

#[derive(Debug, Clone)]
pub struct EvalRecord {
    pub index: u64,
    pub pos: Vec<f64>,
    pub logp: f64,
    pub grad: Vec<f64>,
    pub fault: Option<FaultKind>,
    /// the value returned to the sampler was Err
    pub returned_err: bool,
}

#[derive(Debug, Default)]
pub struct EvalLog {
    pub evals: Vec<EvalRecord>,
    pub n_evals: u64,
    pub keep_records: bool,
    pub faults_fired: Vec<(u64, FaultKind)>,
    /// evaluation budget of the run (0 = unlimited) and whether it was hit: a run that hits it is
    /// stopped by an unrecoverable error from the stub and is not judged after that point
    pub max_evals: u64,
    pub budget_exhausted: bool,
    /// flow-stub call counters
    pub flow_updates: u64,
    pub flow_failures: u64,
}

pub type SharedLog = Arc<Mutex<EvalLog>>;

pub fn new_log(keep_records: bool) -> SharedLog {
    Arc::new(Mutex::new(EvalLog {
        keep_records,
        ..Default::default()
    }))
}

/// Declared variables of the expanded vector (what the "model" stores per draw besides statistics).
#[derive(Debug, Clone, Serialize, Deserialize, PartialEq)]
pub enum VarType {
    F64,
    F32,
    I64,
    U64,
    Bool,
    Str,
}

#[derive(Debug, Clone, Serialize, Deserialize, PartialEq)]
pub struct VarSpec {
    pub name: String,
    pub ty: VarType,
    /// dimension names; sizes in `SimDensity::extra_dims` ("dim" = model dimension)
    pub dims: Vec<String>,
    /// probability (per mille) that a float element is replaced by a special value (NaN, inf, -0.0)
    pub special_permille: u32,
}

pub fn default_vars() -> Vec<VarSpec> {
    vec![VarSpec { name: "value".into(), ty: VarType::F64, dims: vec!["dim".into()], special_permille: 0 }]
}

/// Expanded vector of the stub model: values are a deterministic function of the position.
#[derive(Debug, Clone)]
pub struct SimExpanded {
    pub values: Vec<Option<nuts_rs::Value>>,
}

impl nuts_rs::Storable<SimDensity> for SimExpanded {
    fn names(parent: &SimDensity) -> Vec<&str> {
        parent.vars.iter().map(|v| v.name.as_str()).collect()
    }
    fn item_type(parent: &SimDensity, item: &str) -> nuts_rs::ItemType {
        let v = parent.vars.iter().find(|v| v.name == item).expect("unknown variable");
        match v.ty {
            VarType::F64 => nuts_rs::ItemType::F64,
            VarType::F32 => nuts_rs::ItemType::F32,
            VarType::I64 => nuts_rs::ItemType::I64,
            VarType::U64 => nuts_rs::ItemType::U64,
            VarType::Bool => nuts_rs::ItemType::Bool,
            VarType::Str => nuts_rs::ItemType::String,
        }
    }
    fn dims<'a>(parent: &'a SimDensity, item: &str) -> Vec<&'a str> {
        let v = parent.vars.iter().find(|v| v.name == item).expect("unknown variable");
        v.dims.iter().map(|d| d.as_str()).collect()
    }
    fn get_all<'a>(&'a mut self, parent: &'a SimDensity) -> Vec<(&'a str, Option<nuts_rs::Value>)> {
        parent.vars.iter().zip(self.values.iter()).map(|(v, x)| (v.name.as_str(), x.clone())).collect()
    }
}

/// Stub flow: an affine map owned by the harness. y = (x - shift) / scale.
#[derive(Debug, Clone)]
pub struct AffineFlow {
    pub id: i64,
    pub scale: Vec<f64>,
    pub shift: Vec<f64>,
}

#[derive(Debug, Clone)]
pub struct SimDensity {
    pub target: Arc<Target>,
    pub faults: Arc<Vec<Fault>>,
    pub log: SharedLog,
    /// energy jump size used by the EnergyJump fault (must exceed max_energy_error)
    pub jump: f64,
    /// optional simulated cost per evaluation (engine B clock), ns
    pub eval_cost_ns: u64,
    /// expand_vector output: extra deterministic variables?
    pub expanded_extra: bool,
    /// engine B: Model::math instance number (enables per-task bookkeeping of unrecoverable faults)
    pub instance: Option<u32>,
    /// declared variables of the expanded vector
    pub vars: Arc<Vec<VarSpec>>,
    /// extra dimension sizes (besides "dim" and "unconstrained_parameter")
    pub extra_dims: Arc<Vec<(String, u64)>>,
}

impl SimDensity {
    pub fn new(target: Target, faults: Vec<Fault>, log: SharedLog) -> Self {
        SimDensity {
            target: Arc::new(target),
            faults: Arc::new(faults),
            log,
            jump: 5000.0,
            eval_cost_ns: 0,
            expanded_extra: false,
            instance: None,
            vars: Arc::new(default_vars()),
            extra_dims: Arc::new(vec![]),
        }
    }
}

impl HasDims for SimDensity {
    fn dim_sizes(&self) -> HashMap<String, u64> {
        let d = self.target.dim() as u64;
        let mut m = HashMap::from([
            ("unconstrained_parameter".to_string(), d),
            ("dim".to_string(), d),
        ]);
        for (k, v) in self.extra_dims.iter() {
            m.insert(k.clone(), *v);
        }
        m
    }
}

impl CpuLogpFunc for SimDensity {
    type LogpError = SimLogpError;
    type FlowParameters = AffineFlow;
    type ExpandedVector = SimExpanded;

    fn dim(&self) -> usize {
        self.target.dim()
    }

    fn logp(&mut self, position: &[f64], gradient: &mut [f64]) -> Result<f64, SimLogpError> {
        if self.eval_cost_ns > 0 {
            nuts_rs_verif_rt::clock::advance_ns(self.eval_cost_ns);
        }
        let mut log = self.log.lock().unwrap();
        let index = log.n_evals;
        log.n_evals += 1;
        if log.max_evals > 0 && index >= log.max_evals {
            log.budget_exhausted = true;
            return Err(SimLogpError::Unrecoverable(index));
        }
        let mut lp = self.target.logp(position, gradient);
        let fault = self.faults.iter().find(|f| f.at == index).map(|f| f.kind);
        let mut ret_err = None;
        if let Some(kind) = fault {
            log.faults_fired.push((index, kind));
            match kind {
                // (every third one without any message text)
                FaultKind::RecoverableErr => ret_err = Some(if index % 3 == 0 { SimLogpError::RecoverableSilent(index) } else { SimLogpError::Recoverable(index) }),
                FaultKind::UnrecoverableErr => {
                    if let Some(inst) = self.instance {
                        crate::sched::note_unrecoverable(format!("density_unrecoverable_err@{inst}:{index}"));
                    }
                    ret_err = Some(SimLogpError::Unrecoverable(index))
                }
                FaultKind::NanLogp => lp = f64::NAN,
                FaultKind::PosInfLogp => lp = f64::INFINITY,
                FaultKind::NegInfLogp => lp = f64::NEG_INFINITY,
                FaultKind::NanGrad => {
                    if !gradient.is_empty() {
                        let i = (index as usize) % gradient.len();
                        gradient[i] = f64::NAN;
                    }
                }
                FaultKind::InfGrad => {
                    if !gradient.is_empty() {
                        let i = (index as usize) % gradient.len();
                        gradient[i] = f64::INFINITY;
                    }
                }
                FaultKind::EnergyJump => lp -= self.jump,
            }
        }
        if log.keep_records {
            log.evals.push(EvalRecord {
                index,
                pos: position.to_vec(),
                logp: lp,
                grad: gradient.to_vec(),
                fault,
                returned_err: ret_err.is_some(),
            });
        }
        match ret_err {
            Some(e) => Err(e),
            None => Ok(lp),
        }
    }

    fn expand_vector<R>(&mut self, _rng: &mut R, array: &[f64]) -> Result<SimExpanded, CpuMathError>
    where
        R: rand::Rng + ?Sized,
    {
        let sizes = self.dim_sizes();
        let mut h: u64 = 0x1234_5678_9abc_def0;
        for x in array {
            h = crate::prng::splitmix64(h ^ x.to_bits());
        }
        let mut values = Vec::with_capacity(self.vars.len());
        for (vi, v) in self.vars.iter().enumerate() {
            let n: usize = v.dims.iter().map(|d| *sizes.get(d).unwrap_or(&1) as usize).product();
            let scalar = v.dims.is_empty();
            let mut r = crate::prng::Prng::new(crate::prng::splitmix64(h ^ vi as u64));
            let val = if v.name == "value" && v.ty == VarType::F64 && v.dims == ["dim"] {
                nuts_rs::Value::F64(array.to_vec())
            } else {
                match v.ty {
                    VarType::F64 => {
                        let mut g = |r: &mut crate::prng::Prng| {
                            let x = r.normal() * 10.0;
                            if r.below(1000) < v.special_permille as u64 { *r.pick(&[f64::NAN, f64::INFINITY, f64::NEG_INFINITY, -0.0, 1e-310, f64::MAX]) } else { x }
                        };
                        if scalar { nuts_rs::Value::ScalarF64(g(&mut r)) } else { nuts_rs::Value::F64((0..n).map(|_| g(&mut r)).collect()) }
                    }
                    VarType::F32 => {
                        let mut g = |r: &mut crate::prng::Prng| {
                            let x = (r.normal() * 10.0) as f32;
                            if r.below(1000) < v.special_permille as u64 { *r.pick(&[f32::NAN, f32::INFINITY, f32::NEG_INFINITY, -0.0f32]) } else { x }
                        };
                        if scalar { nuts_rs::Value::ScalarF32(g(&mut r)) } else { nuts_rs::Value::F32((0..n).map(|_| g(&mut r)).collect()) }
                    }
                    VarType::I64 => {
                        let mut g = |r: &mut crate::prng::Prng| if r.chance(0.05) { *r.pick(&[i64::MIN, i64::MAX, 0, -1]) } else { r.next_u64() as i64 >> 20 };
                        if scalar { nuts_rs::Value::ScalarI64(g(&mut r)) } else { nuts_rs::Value::I64((0..n).map(|_| g(&mut r)).collect()) }
                    }
                    VarType::U64 => {
                        let mut g = |r: &mut crate::prng::Prng| if r.chance(0.05) { *r.pick(&[u64::MAX, 0, 1]) } else { r.next_u64() >> 20 };
                        if scalar { nuts_rs::Value::ScalarU64(g(&mut r)) } else { nuts_rs::Value::U64((0..n).map(|_| g(&mut r)).collect()) }
                    }
                    VarType::Bool => {
                        if scalar { nuts_rs::Value::ScalarBool(r.chance(0.5)) } else { nuts_rs::Value::Bool((0..n).map(|_| r.chance(0.5)).collect()) }
                    }
                    VarType::Str => {
                        let s = match r.below(5) {
                            0 => String::new(),
                            1 => "\u{e4}\u{f6}\u{fc} \u{1f600} \u{4e2d}".to_string(),
                            2 => format!("line1\nline2,\"quoted\",{}", r.below(100)),
                            _ => format!("s{}", r.next_u64() % 100000),
                        };
                        nuts_rs::Value::ScalarString(s)
                    }
                }
            };
            values.push(Some(val));
        }
        Ok(SimExpanded { values })
    }

    // ---- stub flow -------------------------------------------------------------------------

    fn inv_transform_normalize(
        &mut self,
        params: &AffineFlow,
        x: &[f64],
        gx: &[f64],
        y: &mut [f64],
        gy: &mut [f64],
    ) -> Result<f64, SimLogpError> {
        let mut logdet = 0.0;
        for i in 0..x.len() {
            y[i] = (x[i] - params.shift[i]) / params.scale[i];
            gy[i] = gx[i] * params.scale[i];
            logdet -= params.scale[i].ln();
        }
        Ok(logdet)
    }

    fn init_from_untransformed_position(
        &mut self,
        params: &AffineFlow,
        x: &[f64],
        gx: &mut [f64],
        y: &mut [f64],
        gy: &mut [f64],
    ) -> Result<(f64, f64), SimLogpError> {
        let lp = self.logp(x, gx)?;
        let mut logdet = 0.0;
        for i in 0..x.len() {
            y[i] = (x[i] - params.shift[i]) / params.scale[i];
            gy[i] = gx[i] * params.scale[i];
            logdet -= params.scale[i].ln();
        }
        Ok((lp, logdet))
    }

    fn init_from_transformed_position(
        &mut self,
        params: &AffineFlow,
        x: &mut [f64],
        gx: &mut [f64],
        y: &[f64],
        gy: &mut [f64],
    ) -> Result<(f64, f64), SimLogpError> {
        for i in 0..y.len() {
            x[i] = y[i] * params.scale[i] + params.shift[i];
        }
        let lp = self.logp(x, gx)?;
        let mut logdet = 0.0;
        for i in 0..y.len() {
            gy[i] = gx[i] * params.scale[i];
            logdet -= params.scale[i].ln();
        }
        Ok((lp, logdet))
    }

    fn update_transformation<'a, R: rand::Rng + ?Sized>(
        &'a mut self,
        _rng: &mut R,
        positions: impl ExactSizeIterator<Item = &'a [f64]>,
        _gradients: impl ExactSizeIterator<Item = &'a [f64]>,
        _logp: impl ExactSizeIterator<Item = &'a f64>,
        params: &'a mut AffineFlow,
    ) -> Result<(), SimLogpError> {
        self.log.lock().unwrap().flow_updates += 1;
        let pos: Vec<&[f64]> = positions.collect();
        let n = pos.len();
        if n >= 3 {
            let d = params.scale.len();
            for i in 0..d {
                let mean = pos.iter().map(|p| p[i]).sum::<f64>() / n as f64;
                let var = pos.iter().map(|p| (p[i] - mean).powi(2)).sum::<f64>() / (n - 1) as f64;
                if var.is_finite() && var > 1e-20 {
                    params.scale[i] = var.sqrt();
                    params.shift[i] = mean;
                }
            }
        }
        params.id += 1;
        Ok(())
    }

    fn init_transformation<R: rand::Rng + ?Sized>(
        &mut self,
        _rng: &mut R,
        x: &[f64],
        _g: &[f64],
        _chain: u64,
    ) -> Result<AffineFlow, SimLogpError> {
        Ok(AffineFlow {
            id: 1,
            scale: vec![1.0; x.len()],
            shift: vec![0.0; x.len()],
        })
    }

    fn new_transformation<R: rand::Rng + ?Sized>(
        &mut self,
        _rng: &mut R,
        dim: usize,
        _chain: u64,
    ) -> Result<AffineFlow, SimLogpError> {
        Ok(AffineFlow {
            id: 0,
            scale: vec![1.0; dim],
            shift: vec![0.0; dim],
        })
    }

    fn transformation_id(&self, params: &AffineFlow) -> Result<i64, SimLogpError> {
        Ok(params.id)
    }
}

// ------------------------------------------------------------------------------------------------
// generators

/// Small dense helpers (row-major n×n).
pub fn matmul(a: &[f64], b: &[f64], n: usize) -> Vec<f64> {
    let mut c = vec![0.0; n * n];
    for i in 0..n {
        for k in 0..n {
            let aik = a[i * n + k];
            for j in 0..n {
                c[i * n + j] += aik * b[k * n + j];
            }
        }
    }
    c
}

pub fn transpose(a: &[f64], n: usize) -> Vec<f64> {
    let mut t = vec![0.0; n * n];
    for i in 0..n {
        for j in 0..n {
            t[j * n + i] = a[i * n + j];
        }
    }
    t
}

/// random orthogonal matrix by Gram-Schmidt on a Gaussian matrix
pub fn random_orthogonal(rng: &mut Prng, n: usize) -> Vec<f64> {
    let mut q = vec![0.0; n * n];
    for i in 0..n {
        loop {
            let mut v: Vec<f64> = (0..n).map(|_| rng.normal()).collect();
            for k in 0..i {
                let dot: f64 = (0..n).map(|j| v[j] * q[k * n + j]).sum();
                for j in 0..n {
                    v[j] -= dot * q[k * n + j];
                }
            }
            let norm = v.iter().map(|x| x * x).sum::<f64>().sqrt();
            if norm > 1e-6 {
                for j in 0..n {
                    q[i * n + j] = v[j] / norm;
                }
                break;
            }
        }
    }
    q
}

/// Dense normal with eigenvalues of the covariance `eig` in a random orthogonal basis.
/// Returns (target, covariance row-major).
pub fn dense_normal(rng: &mut Prng, mu: Vec<f64>, eig: &[f64]) -> (Target, Vec<f64>) {
    let n = mu.len();
    let q = random_orthogonal(rng, n); // rows are orthonormal vectors
    let mut cov = vec![0.0; n * n];
    let mut prec = vec![0.0; n * n];
    for k in 0..n {
        for i in 0..n {
            for j in 0..n {
                cov[i * n + j] += eig[k] * q[k * n + i] * q[k * n + j];
                prec[i * n + j] += q[k * n + i] * q[k * n + j] / eig[k];
            }
        }
    }
    (Target::DenseNormal { mu, prec }, cov)
}

pub fn std_normal(dim: usize) -> Target {
    Target::DiagNormal {
        mu: vec![0.0; dim],
        sigma: vec![1.0; dim],
    }
}

/// Swarm generator of targets for general-purpose histories.
pub fn random_target(rng: &mut Prng, dim: usize, allow_hard: bool) -> Target {
    let kinds = if allow_hard { 8 } else { 4 };
    if dim == 0 {
        return std_normal(0);
    }
    match rng.below(kinds) {
        0 => std_normal(dim),
        1 => {
            let cond = *rng.pick(&[1.0, 10.0, 1e3, 1e6]);
            Target::DiagNormal {
                mu: (0..dim).map(|_| rng.uniform(-3.0, 3.0)).collect(),
                sigma: (0..dim).map(|_| rng.log_uniform(1.0 / f64::sqrt(cond), f64::sqrt(cond))).collect(),
            }
        }
        2 => {
            let eig: Vec<f64> = (0..dim).map(|_| rng.log_uniform(0.05, 20.0)).collect();
            let mu = (0..dim).map(|_| rng.uniform(-2.0, 2.0)).collect();
            dense_normal(rng, mu, &eig).0
        }
        3 => Target::StudentT {
            nu: rng.uniform(3.0, 30.0),
            mu: (0..dim).map(|_| rng.uniform(-2.0, 2.0)).collect(),
            scale: (0..dim).map(|_| rng.log_uniform(0.2, 5.0)).collect(),
        },
        4 => {
            if dim >= 2 {
                Target::Funnel { dim }
            } else {
                std_normal(dim)
            }
        }
        5 => Target::Banana {
            dim,
            b: rng.uniform(0.1, 2.0),
        },
        6 => Target::FlatCoord {
            sigma: (0..dim).map(|_| rng.log_uniform(0.1, 10.0)).collect(),
            flat: rng.below(dim as u64) as usize,
        },
        _ => Target::LogGamma {
            a: (0..dim).map(|_| rng.uniform(0.5, 8.0)).collect(),
        },
    }
}
