//! C03 (every draw is a real trajectory state; statistics describe it; next trajectory starts from it)
//! and C05 (density faults become divergences or errors) — engine A with evaluation records and the
//! SimMath seam.

use nuts_rs::KineticEnergyKind;
use serde::{Deserialize, Serialize};
use serde_json::{Value as J, json};

use crate::chain::{CallResult, ChainCfg, DrawRec, History, Preset, run_chain};
use crate::density::{Fault, FaultKind};
use crate::driver::{RunOutcome, Scenario};
use crate::prng::{Digest, Prng};
use crate::simmath::MathEvent;
#[allow(unused_imports)]
use nuts_rs::verif::TapState;
use crate::swarm::shrink_chain_cfg;

#[derive(Clone, Debug)]
pub struct CallSeg {
    pub n0: u64,
    pub n1: u64,
    /// evaluations [n0, traj_end) are leapfrogs of the trajectory
    pub traj_end: u64,
    /// evaluation index of the base point of a re-run step-size search inside this call
    pub search_base: Option<u64>,
}

fn is_nuts(p: &Preset) -> bool {
    p.is_nuts()
}

/// Segment the evaluations of the draw call with range (n0, n1) using the trajectory tap (hook H3): the
/// first group of tapped leapfrogs after the first start state is the NUTS trajectory; a second start state
/// opens a re-run step-size search, whose base point is the evaluation right before it.
pub fn segment(h: &History, cfg: &ChainCfg, n0: u64, n1: u64) -> CallSeg {
    if !is_nuts(&cfg.preset) {
        return CallSeg { n0, n1, traj_end: n1, search_base: None };
    }
    let tap: &[nuts_rs::verif::TapState] = h
        .draws
        .iter()
        .find(|d| d.evals == (n0, n1))
        .map(|d| &d.tap[..])
        .or_else(|| match &h.failed_call {
            Some((_, _, r)) if *r == (n0, n1) => Some(&h.failed_tap[..]),
            _ => None,
        })
        .unwrap_or(&[]);
    let mut starts = 0;
    let mut traj_len = 0u64;
    for t in tap {
        if t.start {
            starts += 1;
            continue;
        }
        if starts == 1 {
            traj_len += 1;
        }
    }
    let traj_end = (n0 + traj_len).min(n1);
    // anything evaluated after the trajectory belongs to a re-run search: its first evaluation is the base point
    let search_base = if traj_end < n1 { Some(traj_end) } else { None };
    CallSeg { n0, n1, traj_end, search_base }
}

fn bits(v: &[f64]) -> Vec<u64> {
    v.iter().map(|x| x.to_bits()).collect()
}

fn nuts_opts(p: &Preset) -> Option<(u64, u64, Option<f64>, KineticEnergyKind, u64)> {
    match p {
        Preset::DiagNuts(s) => Some((s.maxdepth, s.mindepth, s.target_integration_time, s.trajectory_kind, s.extra_doublings)),
        Preset::LowRankNuts(s) => Some((s.maxdepth, s.mindepth, s.target_integration_time, s.trajectory_kind, s.extra_doublings)),
        Preset::FlowNuts(s) => Some((s.maxdepth, s.mindepth, s.target_integration_time, s.trajectory_kind, s.extra_doublings)),
        _ => None,
    }
}

fn nuts_max_energy_error(p: &Preset) -> Option<f64> {
    match p {
        Preset::DiagNuts(s) => Some(s.max_energy_error),
        Preset::LowRankNuts(s) => Some(s.max_energy_error),
        Preset::FlowNuts(s) => Some(s.max_energy_error),
        _ => None,
    }
}

/// C03 oracles on one recorded history (requires keep_evals + observe_math). `prop` prefixes the keys so
/// that C05 can reuse the membership part for "no invalid draws afterwards".
pub fn check_draws(prop: &str, cfg: &ChainCfg, h: &History, out: &mut RunOutcome, full: bool) {
    if h.new_chain != CallResult::Ok || h.set_position != CallResult::Ok {
        return;
    }
    let pname = cfg.preset.name();
    let dim = cfg.target.dim();
    let mut prev_pos: Vec<f64> = cfg.init.clone();
    // logp of the state the chain starts from: the last evaluation of set_position
    let mut prev_logp: Option<f64> = h.evals.iter().filter(|e| e.index < h.set_position_evals.1 && !e.returned_err).last().map(|e| e.logp);
    let mut cur_std: Option<Vec<f64>> = None;
    let mut cur_mean: Option<Vec<f64>> = None;
    let mut prev_step: Option<f64> = None;
    let mut prev_grad: Option<Vec<f64>> = h.evals.iter().filter(|e| e.index < h.set_position_evals.1 && !e.returned_err).last().map(|e| e.grad.clone());
    for (i, d) in h.draws.iter().enumerate() {
        if cfg.reinit_at == Some(i as u64) && i > 0 {
            prev_pos = cfg.init.clone();
            prev_logp = None;
            prev_grad = None;
            prev_step = None;
        }
        let seg = segment(h, cfg, d.evals.0, d.evals.1);
        let traj: Vec<&crate::density::EvalRecord> = h.evals.iter().filter(|e| e.index >= seg.n0 && e.index < seg.traj_end).collect();
        let pb = bits(&d.pos);
        // positions finite
        if d.pos.iter().any(|x| !x.is_finite()) {
            out.violate(format!("{prop}/nonfinite_position/{pname}"), format!("draw {i}: position {:?}", d.pos));
            return;
        }
        let same_as_prev = pb == bits(&prev_pos);
        // a state is valid if the density returned finite values there (an injected energy jump yields a
        // finite, merely lower, log density: whether it diverges is judged by the divergence rule)
        let matching: Vec<&&crate::density::EvalRecord> = traj.iter().filter(|e| !e.returned_err && e.logp.is_finite() && e.grad.iter().all(|g| g.is_finite()) && bits(&e.pos) == pb).collect();
        if !same_as_prev && matching.is_empty() {
            out.violate(
                format!("{prop}/draw_not_a_trajectory_state/{pname}"),
                format!("draw {i}: returned position {:?} is neither the start {:?} nor any of the {} positions evaluated (fault-free) in this trajectory", d.pos, prev_pos, traj.len()),
            );
            return;
        }
        // statistics belong to that state
        let logp_stat = d.f64("logp");
        if let Some(lp) = logp_stat {
            let expect: Option<f64> = if let Some(e) = matching.last() { Some(e.logp) } else { prev_logp };
            if let Some(ex) = expect {
                // (a periodic orbit - ExactNormal on a whitened Gaussian - can evaluate the very same position more
                // than once, and only one of the evaluations may carry an injected energy jump: any of them counts)
                let any_match = matching.iter().any(|e| e.logp.to_bits() == lp.to_bits());
                if ex.to_bits() != lp.to_bits() && !any_match && !(same_as_prev && !matching.is_empty()) {
                    out.violate(
                        format!("{prop}/logp_not_of_returned_state/{pname}"),
                        format!("draw {i}: logp statistic {lp:e} but the density returned {ex:e} at the returned position (moved={})", !same_as_prev),
                    );
                    return;
                }
            }
            if prop == "C05" && !lp.is_finite() {
                out.violate(format!("C05/nonfinite_logp_in_returned_draw/{pname}"), format!("draw {i}: logp statistic {lp}"));
                return;
            }
        }
        if let (Some(g), Some(e)) = (d.vec("gradient"), matching.last()) {
            if bits(g) != bits(&e.grad) && !same_as_prev {
                out.violate(format!("{prop}/gradient_not_of_returned_state/{pname}"), format!("draw {i}: gradient statistic {:?} vs density {:?}", g, e.grad));
                return;
            }
        }
        if let Some(u) = d.vec("unconstrained_draw") {
            if bits(u) != pb {
                out.violate(format!("{prop}/unconstrained_draw_differs_from_position/{pname}"), format!("draw {i}"));
                return;
            }
        }
        if full {
            let idx = d.i64("index_in_trajectory");
            let start_reevaluated = traj.iter().any(|e| bits(&e.pos) == bits(&prev_pos));
            if let Some(idx) = idx {
                if !start_reevaluated && dim > 0 {
                    if (idx == 0) != same_as_prev {
                        out.violate(format!("C03/index_zero_iff_not_moved/{pname}"), format!("draw {i}: index_in_trajectory={idx} but position {} the previous draw", if same_as_prev { "equals" } else { "differs from" }));
                        return;
                    }
                } else if dim > 0 {
                    out.probe("near_tie_start_reevaluated", 1);
                }
                if idx == 0 {
                    if let Some(ee) = d.f64("energy_error") {
                        if ee != 0.0 {
                            out.violate(format!("C03/energy_error_of_unmoved_draw/{pname}"), format!("draw {i}: index 0 but energy_error {ee:e}"));
                            return;
                        }
                    }
                }
            }
            if let Some((maxdepth, mindepth, tit, _kind, _extra)) = nuts_opts(&cfg.preset) {
                let depth = d.u64("depth").unwrap_or(0);
                let n_steps = d.u64("n_steps").unwrap_or(0);
                let diverging = d.progress.diverging;
                let t = traj.len() as u64;
                if depth > maxdepth {
                    out.violate(format!("C03/depth_exceeds_maxdepth/{pname}"), format!("draw {i}: depth {depth} > maxdepth {maxdepth}"));
                    return;
                }
                if n_steps != t {
                    out.violate(format!("C03/n_steps_vs_evaluations/{pname}"), format!("draw {i}: n_steps statistic {n_steps} but the trajectory evaluated the density {t} times"));
                    return;
                }
                if d.progress.num_steps != n_steps {
                    out.violate(format!("C03/progress_num_steps/{pname}"), format!("draw {i}: Progress.num_steps {} vs n_steps {n_steps}", d.progress.num_steps));
                    return;
                }
                if !diverging {
                    let lo = (1u64 << depth) - 1;
                    let hi = (1u64 << (depth + 1)) - 1;
                    if n_steps < lo || n_steps > hi {
                        out.violate(format!("C03/steps_vs_depth/{pname}"), format!("draw {i}: depth {depth}, n_steps {n_steps} outside [{lo}, {hi}]"));
                        return;
                    }
                    if tit.is_none() && dim > 0 && depth < mindepth.min(maxdepth) {
                        out.violate(format!("C03/stopped_before_mindepth/{pname}"), format!("draw {i}: depth {depth} < mindepth {mindepth} without divergence"));
                        return;
                    }
                }
                if let Some(idx) = idx {
                    if idx.unsigned_abs() > (1u64 << depth) - 1 + if diverging { 1u64 << depth } else { 0 } {
                        out.violate(format!("C03/index_outside_tree/{pname}"), format!("draw {i}: |index| {} with depth {depth}", idx.unsigned_abs()));
                        return;
                    }
                }
                if dim > 0 && maxdepth >= 1 && n_steps == 0 {
                    out.violate(format!("C03/zero_step_trajectory/{pname}"), format!("draw {i}: maxdepth {maxdepth}, dimension {dim}, but the trajectory took no leapfrog step (target_integration_time {:?}, step size {:?})", tit, prev_step));
                    return;
                }
                if d.bool("maxdepth_reached") == Some(true) {
                    if tit.is_none() && (depth != maxdepth || diverging || n_steps != (1u64 << maxdepth) - 1) {
                        out.violate(format!("C03/maxdepth_flag/{pname}"), format!("draw {i}: maxdepth_reached but depth {depth}/{maxdepth}, diverging {diverging}, n_steps {n_steps}"));
                        return;
                    }
                    out.probe("maxdepth_reached_draws", 1);
                }
            }
            // trajectory audit (hook H3): RefNuts recomputes, from the states the integrator visited, where
            // the doubling had to stop
            if let (Some((maxdepth, mindepth, tit, _kind, extra)), true) = (nuts_opts(&cfg.preset), !d.tap.is_empty()) {
                let check_turning = match &cfg.preset {
                    Preset::DiagNuts(s) => s.check_turning,
                    Preset::LowRankNuts(s) => s.check_turning,
                    Preset::FlowNuts(s) => s.check_turning,
                    _ => true,
                };
                if tit.is_none() {
                    let trajs = crate::refnuts::split_trajectories(&d.tap);
                    if let Some(tr) = trajs.first() {
                        let o = crate::refnuts::AuditOpts { maxdepth, mindepth, check_turning, extra_doublings: extra };
                        match crate::refnuts::audit(tr, dim, &o, None) {
                            Err(msg) => {
                                // decide near-ties conservatively: re-audit is impossible, so only report when no
                                // U-turn product of this trajectory is within the tie margin
                                if !trajectory_has_near_tie(tr) {
                                    out.violate(format!("C03/trajectory_stops_at_wrong_point/{pname}"), format!("draw {i}: {msg}"));
                                    return;
                                }
                                out.probe("audit_near_tie_skipped", 1);
                            }
                            Ok(a) => {
                                if a.near_tie {
                                    out.probe("audit_near_tie_skipped", 1);
                                } else {
                                    out.probe("trajectories_audited", 1);
                                    let depth = d.u64("depth").unwrap_or(u64::MAX);
                                    let idx = d.i64("index_in_trajectory").unwrap_or(0);
                                    if depth != a.depth {
                                        out.violate(format!("C03/audit_depth/{pname}"), format!("draw {i}: reported depth {depth}, reference {} (stop reason {:?}, block {:?})", a.depth, a.reason, a.block));
                                        return;
                                    }
                                    let div_ref = a.reason == crate::refnuts::StopReason::Divergence;
                                    if d.progress.diverging != div_ref {
                                        out.violate(format!("C03/audit_divergence/{pname}"), format!("draw {i}: diverging {} but reference stop reason {:?}", d.progress.diverging, a.reason));
                                        return;
                                    }
                                    let md_ref = a.reason == crate::refnuts::StopReason::MaxDepth;
                                    if d.bool("maxdepth_reached") != Some(md_ref) {
                                        out.violate(format!("C03/audit_maxdepth_flag/{pname}"), format!("draw {i}: maxdepth_reached {:?}, reference stop reason {:?} at depth {}", d.bool("maxdepth_reached"), a.reason, a.depth));
                                        return;
                                    }
                                    if idx < a.block.0 || idx > a.block.1 {
                                        out.violate(format!("C03/draw_from_rejected_subtree/{pname}"), format!("draw {i}: index {idx} outside the accepted block {:?} (rejected {:?})", a.block, a.rejected));
                                        return;
                                    }
                                    if a.reason == crate::refnuts::StopReason::SubtreeTurning {
                                        out.probe("rejected_subtrees_seen", 1);
                                    }
                                }
                            }
                        }
                    }
                }
            }
            // a state is a divergence exactly when its energy error relative to the START of the trajectory exceeds
            // max_energy_error (or is not a number): judged from the energies the tap reports, not from the flag
            if let (Some(mee), false) = (nuts_max_energy_error(&cfg.preset), d.tap.is_empty()) {
                if let Some(tr) = crate::refnuts::split_trajectories(&d.tap).first() {
                    for t in tr.iter() {
                        if t.failed || t.start {
                            continue;
                        }
                        let err = t.energy - t.initial_energy;
                        let expect = !err.is_finite() || err > mee;
                        let near = err.is_finite() && (err - mee).abs() <= 1e-9 * (1.0 + mee.abs());
                        if near {
                            out.probe("energy_error_at_threshold_skipped", 1);
                            continue;
                        }
                        if expect {
                            out.probe("states_over_energy_limit", 1);
                        }
                        if expect != t.divergent {
                            out.violate(
                                format!("{prop}/divergence_flag_disagrees_with_energy_error/{pname}"),
                                format!("draw {i}: state {} has energy {:e}, the trajectory started at {:e} (error {err:e}, max_energy_error {mee}): {} as a divergence", t.index, t.energy, t.initial_energy, if t.divergent { "treated" } else { "NOT treated" }),
                            );
                            return;
                        }
                    }
                }
            }
            // the start state of every trajectory is the previous draw *as the current transformation sees it*:
            // all states of a trajectory are related to their whitened coordinates by one affine map
            if !d.tap.is_empty() {
                for seg in crate::refnuts::split_trajectories(&d.tap) {
                    match crate::refnuts::affine_consistency(seg) {
                        Ok(k) => out.probe("affine_identities_checked", k),
                        Err(msg) => {
                            out.violate(format!("C03/trajectory_start_inconsistent_with_transformation/{pname}"), format!("draw {i}: {msg}"));
                            return;
                        }
                    }
                }
            }
            // the next trajectory starts from this draw: for a diagonal transformation with reported
            // scales the first leapfrog position is predicted from (previous draw, its gradient, the
            // momentum seen at the seam, the step size in force, the scales in force)
            if let (Preset::DiagNuts(s), Some(stds), Some(eps), Some(g0)) = (&cfg.preset, &cur_std, prev_step, &prev_grad) {
                if s.trajectory_kind == KineticEnergyKind::Euclidean && !traj.is_empty() && cfg.reinit_at != Some(i as u64) {
                    let mom = h.math_events.iter().find_map(|e| match e {
                        MathEvent::Gaussian { at_eval, values } if *at_eval == seg.n0 => Some(values.clone()),
                        _ => None,
                    });
                    if let Some(v) = mom {
                        let x1 = &traj[0].pos;
                        let mut ok_fwd = true;
                        let mut ok_bwd = true;
                        let mut worst = 0.0f64;
                        for k in 0..dim {
                            for (sign, ok) in [(1.0, &mut ok_fwd), (-1.0, &mut ok_bwd)] {
                                let e = sign * eps;
                                let vh = v[k] + 0.5 * e * stds[k] * g0[k];
                                let pred = prev_pos[k] + e * stds[k] * vh;
                                // the implementation re-derives the whitened coordinate as (x - mean)/std, which
                                // cancels when |mean| >> |x - mean|: allow rounding relative to |x| + |mean|
                                let mean_k = cur_mean.as_ref().map(|m| m[k].abs()).unwrap_or(0.0);
                                let tol = 1e-7 * (e * stds[k] * vh).abs() + 1e-11 * (prev_pos[k].abs() + mean_k) + 1e-300;
                                let err = (x1[k] - pred).abs() / tol;
                                if err > 1.0 {
                                    *ok = false;
                                }
                                if std::env::var("VERIF_DEBUG").is_ok() {
                                    eprintln!("draw {i} coord {k} sign {sign}: x0 {:e} x1 {:e} pred {:e} err {:e} g {:e}", prev_pos[k], x1[k], pred, err, g0[k]);
                                }
                                if sign > 0.0 {
                                    worst = worst.max(err);
                                }
                            }
                        }
                        out.probe("first_leapfrog_predictions_checked", 1);
                        if !ok_fwd && !ok_bwd {
                            out.violate(
                                "C03/next_trajectory_does_not_start_at_previous_draw/diag_nuts".to_string(),
                                format!("draw {i}: first evaluated position {:?} is not the leapfrog image of the previous draw {:?} (step size {eps:e}, scales {:?}, momentum {:?}); error/tolerance {worst:e}", x1, prev_pos, stds, v),
                            );
                            return;
                        }
                    }
                }
            }
        }
        // bookkeeping for the next draw
        // (when the position was evaluated more than once - periodic orbit - the state the chain holds is the
        // evaluation whose log density the statistics report)
        let held = matching.iter().rev().find(|e| logp_stat.map(|lp| lp.to_bits() == e.logp.to_bits()).unwrap_or(false)).or(matching.last());
        if let Some(e) = held {
            prev_logp = Some(e.logp);
            prev_grad = Some(e.grad.clone());
        }
        if !same_as_prev {
            prev_pos = d.pos.clone();
        }
        if let Some(m) = d.vec("mass_matrix_inv") {
            cur_std = Some(m.clone());
        }
        if let Some(m) = d.vec("transformation_mu") {
            cur_mean = Some(m.clone());
        }
        prev_step = Some(d.progress.step_size);
        if !is_nuts(&cfg.preset) {
            // MCLMC reports the step size in force for this draw; the one for the next draw is unknown
            prev_step = None;
        }
    }
}

// ------------------------------------------------------------------------------------------------

#[derive(Clone, Debug, Serialize, Deserialize)]
pub struct TrajScenario {
    pub cfg: ChainCfg,
}

impl Scenario for TrajScenario {
    fn run(&self) -> RunOutcome {
        let mut cfg = self.cfg.clone();
        cfg.keep_evals = true;
        cfg.observe_math = true;
        let h = run_chain(&cfg);
        let mut out = RunOutcome { digest: h.digest(), sim_draws: h.draws.len() as u64, sim_evals: h.n_evals, ..Default::default() };
        out.probe(&format!("preset_{}", cfg.preset.name()), 1);
        if let CallResult::Panic(m) = &h.new_chain {
            out.violate(format!("C03/new_chain_panic/{}", cfg.preset.name()), m.chars().take(200).collect::<String>());
        }
        if let Some((i, CallResult::Panic(m), _)) = &h.failed_call {
            out.violate(format!("C03/draw_panic/{}", cfg.preset.name()), format!("draw {i}: {}", m.chars().take(200).collect::<String>()));
        }
        check_draws("C03", &cfg, &h, &mut out, true);
        let moved = h.draws.windows(2).filter(|w| w[0].pos != w[1].pos).count();
        out.probe("draws_that_moved", moved as u64);
        out.probe("divergent_draws", h.draws.iter().filter(|d| d.progress.diverging).count() as u64);
        out.nontrivial = moved > 0;
        out
    }
    fn shrink(&self) -> Vec<Self> {
        shrink_chain_cfg(&self.cfg).into_iter().map(|cfg| TrajScenario { cfg }).collect()
    }
    fn describe(&self) -> J {
        json!({"preset": self.cfg.preset.name(), "num_tune": self.cfg.preset.num_tune(), "num_draws": self.cfg.preset.num_draws(), "dim": self.cfg.target.dim(),
               "target": format!("{:?}", self.cfg.target).chars().take(120).collect::<String>(), "faults": self.cfg.faults, "settings": serde_json::to_value(&self.cfg.preset).unwrap_or(J::Null)})
    }
}

// ------------------------------------------------------------------------------------------------
// C05

#[derive(Clone, Debug, Serialize, Deserialize)]
pub struct FaultScenario {
    pub cfg: ChainCfg,
    /// enumerate every evaluation index x every fault kind of the dry run (capped by `max_positions`)
    pub enumerate: bool,
    pub max_positions: u64,
    /// number of random fault pairs in addition
    pub pairs: u64,
    pub pair_seed: u64,
}

fn locate(h: &History, k: u64) -> Option<(Option<usize>, (u64, u64))> {
    if k >= h.set_position_evals.0 && k < h.set_position_evals.1 {
        return Some((None, h.set_position_evals));
    }
    for (i, d) in h.draws.iter().enumerate() {
        if k >= d.evals.0 && k < d.evals.1 {
            return Some((Some(i), d.evals));
        }
    }
    if let Some((i, _, r)) = &h.failed_call {
        if k >= r.0 && k < r.1.max(r.0 + 1) {
            return Some((Some(*i as usize), *r));
        }
    }
    None
}

/// Judge one faulty run against the dry run.
pub fn judge_fault_run(cfg: &ChainCfg, dry: &History, h: &History, out: &mut RunOutcome) {
    let pname = cfg.preset.name();
    let fired = h.faults_fired.clone();
    for (_, k) in &fired {
        out.probe(&format!("fault_fired_{}", k.name()), 1);
    }
    // never a panic, whatever happened
    if let CallResult::Panic(m) = &h.new_chain {
        out.violate(format!("C05/panic/new_chain/{pname}"), m.chars().take(200).collect::<String>());
        return;
    }
    if let CallResult::Panic(m) = &h.set_position {
        out.violate(format!("C05/panic/set_position/{pname}"), format!("faults {:?}: {}", fired, m.chars().take(200).collect::<String>()));
        return;
    }
    if let Some((i, CallResult::Panic(m), _)) = &h.failed_call {
        out.violate(format!("C05/panic/draw/{pname}"), format!("draw {i}, faults {:?}: {}", fired, m.chars().take(200).collect::<String>()));
        return;
    }
    if fired.is_empty() {
        return;
    }
    out.nontrivial = true;
    let (k0, kind0) = fired[0];
    let unrec = fired.iter().find(|(_, k)| k.is_unrecoverable());
    if let Some((ku, _)) = unrec {
        // the call that triggered it must return Err; nothing after it is judged
        let site = locate(h, *ku);
        let ok = match site {
            Some((None, _)) => matches!(h.set_position, CallResult::Err(_)),
            Some((Some(i), _)) => matches!(&h.failed_call, Some((j, CallResult::Err(_), _)) if *j as usize == i),
            None => false,
        };
        if !ok {
            let phase = phase_of(cfg, dry, *ku);
            out.violate(
                format!("C05/unrecoverable_error_not_returned/{phase}/{pname}"),
                format!("unrecoverable error at evaluation {ku} ({phase}); set_position {:?}, failed call {:?}, draws completed {}", h.set_position, h.failed_call.as_ref().map(|f| (&f.0, &f.1)), h.draws.len()),
            );
        } else {
            out.probe("unrecoverable_returned_err", 1);
        }
        // draws before the failing call are still judged below
    }
    // recoverable-class fault: judge the call that contained the first one
    if !kind0.is_unrecoverable() {
        let phase = phase_of(cfg, dry, k0);
        out.probe(&format!("phase_{phase}"), 1);
        match locate(h, k0) {
            Some((None, _)) => {
                // set_position: Ok or Err, both accepted
            }
            Some((Some(i), range)) => {
                let failed_here = matches!(&h.failed_call, Some((j, _, _)) if *j as usize == i);
                // phase labels are exact for the first fault only (the faulty run equals the dry run up to
                // it); when a second fault fired inside the same call, only the no-panic and valid-draw
                // rules are applied to that call
                let other_fault_in_call = fired.iter().skip(1).any(|(k, _)| *k >= range.0 && *k < range.1.max(range.0 + 1));
                let phase = if other_fault_in_call { "multiple_faults_in_call" } else { phase };
                match phase {
                    "trajectory" => {
                        if failed_here && unrec.is_none() && !h.budget_exhausted {
                            out.violate(format!("C05/recoverable_fault_failed_the_draw/{}/{pname}", kind0.name()), format!("{} at evaluation {k0} (trajectory leapfrog of draw {i}): {:?}", kind0.name(), h.failed_call.as_ref().map(|f| &f.1)));
                            return;
                        }
                        if let Some(d) = h.draws.get(i) {
                            let retried = !cfg.preset.is_nuts() && mclmc_dynamic(&cfg.preset);
                            let div_ok = d.progress.diverging && d.bool("diverging") == Some(true) && d.string("divergence_message").is_some();
                            if !div_ok && !retried {
                                out.violate(
                                    format!("C05/fault_not_reported_as_divergence/{}/{pname}", kind0.name()),
                                    format!("{} at evaluation {k0} (leapfrog of draw {i}): Progress.diverging={}, stat diverging={:?}, message={:?}", kind0.name(), d.progress.diverging, d.bool("diverging"), d.string("divergence_message")),
                                );
                                return;
                            }
                            if div_ok {
                                out.probe("fault_became_divergence", 1);
                            } else {
                                out.probe("fault_retried_with_smaller_step", 1);
                            }
                            if !cfg.preset.is_nuts() && d.progress.diverging {
                                // divergent MCLMC draw leaves the position unchanged
                                let prev = if i == 0 { cfg.init.clone() } else { h.draws[i - 1].pos.clone() };
                                if bits(&prev) != bits(&d.pos) {
                                    out.violate(format!("C05/divergent_mclmc_draw_moved/{pname}"), format!("draw {i}"));
                                    return;
                                }
                            }
                        }
                    }
                    "search_trial" => {
                        if failed_here && unrec.is_none() && !h.budget_exhausted {
                            out.violate(format!("C05/fault_in_search_trial_failed_the_call/{}/{pname}", kind0.name()), format!("{} at evaluation {k0} (trial step of the re-run step-size search in draw {i}): {:?}", kind0.name(), h.failed_call.as_ref().map(|f| &f.1)));
                            return;
                        }
                    }
                    "search_base" => {
                        // the start point of the re-run search: a recoverable *error* there must not end
                        // sampling (the search is skipped); a garbage value (NaN / inf) may be refused as an
                        // invalid start point, i.e. Ok or Err
                        if kind0 == FaultKind::RecoverableErr && failed_here && unrec.is_none() && !h.budget_exhausted {
                            out.violate(
                                format!("C05/recoverable_error_at_search_start_failed_the_call/{pname}"),
                                format!("recoverable error at evaluation {k0} (start point of the re-run step-size search in draw {i}): {:?}", h.failed_call.as_ref().map(|f| &f.1)),
                            );
                            return;
                        }
                        out.probe("fault_at_search_start_judged", 1);
                    }
                    _ => {}
                }
            }
            None => {}
        }
    }
    // every returned draw, before and after the fault, is a valid state
    check_draws("C05", cfg, h, out, false);
    // scales reported after the fault stay finite and positive
    for (i, d) in h.draws.iter().enumerate() {
        for name in ["mass_matrix_inv", "mass_matrix_stds"] {
            if let Some(v) = d.vec(name) {
                if v.iter().any(|x| !(x.is_finite() && *x > 0.0)) {
                    out.violate(format!("C05/invalid_scale_after_fault/{name}/{pname}"), format!("draw {i}: {:?}", v));
                    return;
                }
            }
        }
        if !(d.progress.step_size.is_finite() && d.progress.step_size > 0.0) {
            out.violate(format!("C05/invalid_step_size_after_fault/{pname}"), format!("draw {i}: step size {}", d.progress.step_size));
            return;
        }
    }
}

fn mclmc_dynamic(p: &Preset) -> bool {
    match p {
        Preset::DiagMclmc(s) => s.dynamic_step_size,
        Preset::LowRankMclmc(s) => s.dynamic_step_size,
        Preset::FlowMclmc(s) => s.dynamic_step_size,
        _ => false,
    }
}

/// Phase label of evaluation k, from the dry run (exact: the faulty run equals the dry run up to k).
pub fn phase_of(cfg: &ChainCfg, dry: &History, k: u64) -> &'static str {
    if k < dry.set_position_evals.1 {
        return "set_position";
    }
    for d in &dry.draws {
        if k >= d.evals.0 && k < d.evals.1 {
            let seg = segment(dry, cfg, d.evals.0, d.evals.1);
            return if k < seg.traj_end {
                "trajectory"
            } else if Some(k) == seg.search_base {
                "search_base"
            } else {
                "search_trial"
            };
        }
    }
    "beyond_dry_run"
}

impl Scenario for FaultScenario {
    fn run(&self) -> RunOutcome {
        let mut cfg = self.cfg.clone();
        cfg.keep_evals = true;
        cfg.observe_math = true;
        let mut base_cfg = cfg.clone();
        base_cfg.faults.clear();
        let dry = run_chain(&base_cfg);
        let mut out = RunOutcome { sim_draws: dry.draws.len() as u64, sim_evals: dry.n_evals, ..Default::default() };
        let mut dg = Digest::new();
        dg.u64(dry.digest());
        out.probe(&format!("preset_{}", cfg.preset.name()), 1);
        // the fault-free configuration is judged strictly: every call returns Ok
        if dry.new_chain != CallResult::Ok {
            out.violate(format!("C05/fault_free_run_failed/new_chain/{}", cfg.preset.name()), format!("{:?}", dry.new_chain));
            out.digest = dg.0;
            return out;
        }
        if dry.budget_exhausted {
            out.probe("evaluation_budget_exhausted", 1);
            out.digest = dg.0;
            return out;
        }
        if let Some((i, r, _)) = &dry.failed_call {
            out.violate(format!("C05/fault_free_run_failed/draw/{}", cfg.preset.name()), format!("draw {i}: {:?}", r));
        }
        if !self.enumerate {
            let h = run_chain(&cfg);
            dg.u64(h.digest());
            judge_fault_run(&cfg, &dry, &h, &mut out);
            out.digest = dg.0;
            return out;
        }
        let n = dry.n_evals;
        let positions: Vec<u64> = if n <= self.max_positions {
            (0..n).collect()
        } else {
            // stratified: all of set_position, then evenly strided
            let mut p: Vec<u64> = (0..dry.set_position_evals.1.min(40)).collect();
            let stride = (n / self.max_positions).max(1);
            let mut x = dry.set_position_evals.1;
            while x < n {
                p.push(x);
                x += stride;
            }
            p
        };
        out.probe("fault_positions_enumerated", positions.len() as u64 * FaultKind::ALL.len() as u64);
        for k in &positions {
            for kind in FaultKind::ALL {
                let mut c = base_cfg.clone();
                c.faults = vec![Fault { at: *k, kind }];
                let h = run_chain(&c);
                dg.u64(h.digest());
                out.sim_draws += h.draws.len() as u64;
                out.sim_evals += h.n_evals;
                let before = out.violations.len();
                judge_fault_run(&c, &dry, &h, &mut out);
                for v in out.violations[before..].iter_mut() {
                    v.detail = format!("fault {} at evaluation {k}: {}", kind.name(), v.detail);
                    v.hint = Some(json!({"faults": [{"at": k, "kind": kind}]}));
                }
            }
        }
        // pairs of faults: the second one relative to the run with the first
        let mut r = Prng::new(self.pair_seed);
        for _ in 0..self.pairs {
            if n == 0 {
                break;
            }
            let k1 = r.below(n);
            let kind1 = *r.pick(&FaultKind::ALL);
            let gap = *r.pick(&[1u64, 1, 2, 3, 5, 8, 20]);
            let kind2 = *r.pick(&FaultKind::ALL);
            let mut c = base_cfg.clone();
            c.faults = vec![Fault { at: k1, kind: kind1 }, Fault { at: k1 + gap, kind: kind2 }];
            let h = run_chain(&c);
            dg.u64(h.digest());
            out.probe("fault_pairs_run", 1);
            let before = out.violations.len();
            judge_fault_run(&c, &dry, &h, &mut out);
            for v in out.violations[before..].iter_mut() {
                v.detail = format!("faults {}@{k1} + {}@{}: {}", kind1.name(), kind2.name(), k1 + gap, v.detail);
                v.hint = Some(json!({"faults": [{"at": k1, "kind": kind1}, {"at": k1 + gap, "kind": kind2}]}));
            }
        }
        out.digest = dg.0;
        out
    }

    fn shrink_with_hint(&self, hint: &Option<J>) -> Vec<Self> {
        if self.enumerate {
            if let Some(h) = hint {
                if let Ok(faults) = serde_json::from_value::<Vec<Fault>>(h["faults"].clone()) {
                    let mut c = self.cfg.clone();
                    c.faults = faults;
                    return vec![FaultScenario { cfg: c, enumerate: false, max_positions: 0, pairs: 0, pair_seed: 0 }];
                }
            }
            return vec![];
        }
        self.shrink()
    }

    fn shrink(&self) -> Vec<Self> {
        let mut v = vec![];
        for cfg in shrink_chain_cfg(&self.cfg) {
            if cfg.faults.is_empty() {
                continue;
            }
            v.push(FaultScenario { cfg, enumerate: false, max_positions: 0, pairs: 0, pair_seed: 0 });
        }
        v
    }

    fn describe(&self) -> J {
        json!({"preset": self.cfg.preset.name(), "num_tune": self.cfg.preset.num_tune(), "num_draws": self.cfg.preset.num_draws(), "dim": self.cfg.target.dim(),
               "target": format!("{:?}", self.cfg.target).chars().take(120).collect::<String>(), "enumerate": self.enumerate, "max_positions": self.max_positions, "pairs": self.pairs,
               "explicit_faults": self.cfg.faults})
    }
}

#[allow(dead_code)]
fn _unused(_: &DrawRec) {}

/// true if any pair of visited states has a U-turn product within the tie margin (then the reference's
/// decisions cannot be trusted to match bit-level arithmetic of the implementation)
fn trajectory_has_near_tie(tr: &[TapState]) -> bool {
    let st: Vec<&TapState> = tr.iter().filter(|s| !s.failed && !s.y.is_empty()).collect();
    for a in 0..st.len() {
        for b in (a + 1)..st.len() {
            let (sa, sb) = if st[a].index < st[b].index { (st[a], st[b]) } else { (st[b], st[a]) };
            let mut t1 = 0.0;
            let mut t2 = 0.0;
            let mut nd = 0.0;
            let mut na = 0.0;
            let mut nb = 0.0;
            for i in 0..sa.y.len() {
                let d = sb.y[i] - sa.y[i];
                t1 += d * sa.v[i];
                t2 += d * sb.v[i];
                nd += d * d;
                na += sa.v[i] * sa.v[i];
                nb += sb.v[i] * sb.v[i];
            }
            if t1.abs() <= 1e-9 * (nd * na).sqrt() || t2.abs() <= 1e-9 * (nd * nb).sqrt() {
                return true;
            }
        }
    }
    false
}
