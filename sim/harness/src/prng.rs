//! One integer decides everything: SplitMix64 streams derived from VERIF_SEED.

pub fn splitmix64(x: u64) -> u64 {
    let mut z = x.wrapping_add(0x9E3779B97F4A7C15);
    z = (z ^ (z >> 30)).wrapping_mul(0xBF58476D1CE4E5B9);
    z = (z ^ (z >> 27)).wrapping_mul(0x94D049BB133111EB);
    z ^ (z >> 31)
}

/// FNV-1a, used to turn labels into stream ids (stable across runs and processes).
pub fn label_hash(s: &str) -> u64 {
    let mut h: u64 = 0xcbf29ce484222325;
    for b in s.bytes() {
        h ^= b as u64;
        h = h.wrapping_mul(0x100000001b3);
    }
    h
}

pub fn run_seed(verif_seed: u64, property: &str, batch: &str, index: u64) -> u64 {
    splitmix64(
        splitmix64(verif_seed ^ label_hash(property)) ^ splitmix64(label_hash(batch) ^ index.wrapping_mul(0xD1342543DE82EF95)),
    )
}

#[derive(Clone, Debug)]
pub struct Prng {
    state: u64,
}

impl Prng {
    pub fn new(seed: u64) -> Self {
        Prng { state: seed }
    }
    /// Labelled sub-stream: shrinking one dimension of a run does not reshuffle the others.
    pub fn sub(seed: u64, label: &str) -> Self {
        Prng::new(splitmix64(seed ^ label_hash(label)))
    }
    pub fn next_u64(&mut self) -> u64 {
        self.state = self.state.wrapping_add(0x9E3779B97F4A7C15);
        let mut z = self.state;
        z = (z ^ (z >> 30)).wrapping_mul(0xBF58476D1CE4E5B9);
        z = (z ^ (z >> 27)).wrapping_mul(0x94D049BB133111EB);
        z ^ (z >> 31)
    }
    /// uniform in 0..n (n > 0)
    pub fn below(&mut self, n: u64) -> u64 {
        debug_assert!(n > 0);
        ((self.next_u64() as u128 * n as u128) >> 64) as u64
    }
    pub fn range(&mut self, lo: u64, hi_incl: u64) -> u64 {
        lo + self.below(hi_incl - lo + 1)
    }
    pub fn usize_in(&mut self, lo: usize, hi_incl: usize) -> usize {
        self.range(lo as u64, hi_incl as u64) as usize
    }
    pub fn f64(&mut self) -> f64 {
        (self.next_u64() >> 11) as f64 / (1u64 << 53) as f64
    }
    pub fn uniform(&mut self, lo: f64, hi: f64) -> f64 {
        lo + (hi - lo) * self.f64()
    }
    pub fn log_uniform(&mut self, lo: f64, hi: f64) -> f64 {
        (self.uniform(lo.ln(), hi.ln())).exp()
    }
    pub fn chance(&mut self, p: f64) -> bool {
        self.f64() < p
    }
    pub fn pick<'a, T>(&mut self, xs: &'a [T]) -> &'a T {
        &xs[self.below(xs.len() as u64) as usize]
    }
    pub fn normal(&mut self) -> f64 {
        // Box-Muller; two uniforms per call (deterministic call count)
        let u1 = 1.0 - self.f64();
        let u2 = self.f64();
        (-2.0 * u1.ln()).sqrt() * (2.0 * std::f64::consts::PI * u2).cos()
    }
}

/// rand 0.10 adapter so the stream can seed a chain (`Settings::new_chain(…, rng)`).
pub struct RandAdapter(pub Prng);

impl rand::TryRng for RandAdapter {
    type Error = std::convert::Infallible;
    fn try_next_u32(&mut self) -> Result<u32, Self::Error> {
        Ok((self.0.next_u64() >> 32) as u32)
    }
    fn try_next_u64(&mut self) -> Result<u64, Self::Error> {
        Ok(self.0.next_u64())
    }
    fn try_fill_bytes(&mut self, dst: &mut [u8]) -> Result<(), Self::Error> {
        for chunk in dst.chunks_mut(8) {
            let v = self.0.next_u64().to_le_bytes();
            chunk.copy_from_slice(&v[..chunk.len()]);
        }
        Ok(())
    }
}

/// Stable 64-bit digest of an event log (FNV over bytes; floats enter as bit patterns).
#[derive(Clone, Copy, Debug)]
pub struct Digest(pub u64);

impl Default for Digest {
    fn default() -> Self {
        Digest(0xcbf29ce484222325)
    }
}

impl Digest {
    pub fn new() -> Self {
        Self::default()
    }
    pub fn u64(&mut self, v: u64) {
        for b in v.to_le_bytes() {
            self.0 ^= b as u64;
            self.0 = self.0.wrapping_mul(0x100000001b3);
        }
    }
    pub fn f64(&mut self, v: f64) {
        self.u64(v.to_bits());
    }
    pub fn f64s(&mut self, v: &[f64]) {
        self.u64(v.len() as u64);
        for x in v {
            self.f64(*x);
        }
    }
    pub fn str(&mut self, s: &str) {
        self.u64(s.len() as u64);
        for b in s.bytes() {
            self.0 ^= b as u64;
            self.0 = self.0.wrapping_mul(0x100000001b3);
        }
    }
    pub fn bool(&mut self, b: bool) {
        self.u64(b as u64);
    }
}
