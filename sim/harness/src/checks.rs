//! Registry: property id -> batches of scenarios, evidence level, components.

use serde_json::{Value as J, json};

use crate::driver::{Ctx, Scenario, Tier, harness_error};
use crate::prng::Prng;
use crate::props_chain::ChainScenario;
use crate::swarm::{SwarmOpts, gen_chain_cfg};

pub fn components_engine_a() -> J {
    json!({
        "real_code": ["everything under /repo/src reached through Settings::new_chain / Chain::{set_position, expanded_draw}: NUTS tree, MCLMC kernel, leapfrog, transformations, adaptation strategies, step-size adaptation, CpuMath kernels, Storable statistics"],
        "stubs": ["density (CpuLogpFunc): harness targets with exact gradients + fault injector by evaluation index", "flow transformation callbacks: harness affine flow (Flow presets only)"],
        "seams": ["chain RNG seeded from the run seed through Settings::new_chain", "density callback", "hash order: getrandom shim + fresh OS thread per run"],
    })
}

pub fn run_check(prop: &str, tier: Tier, seed: u64) -> i32 {
    match prop {
        "C06" => c06(tier, seed),
        "C16" => c16(tier, seed),
        other => harness_error(&format!("no check registered for {other}")),
    }
}

pub fn replay(doc: &J) -> i32 {
    let prop = doc["property"].as_str().unwrap_or("");
    match prop {
        "C06" | "C16" => crate::driver::replay::<ChainScenario>(doc),
        other => harness_error(&format!("replay: unknown property {other}")),
    }
}

fn chain_batch(ctx: &mut Ctx, prop: &'static str, batch: &str, rule: &str, n: u64, opts: SwarmOpts, tweak: impl Fn(&mut crate::chain::ChainCfg, &mut Prng) + Sync) {
    ctx.run_batch(batch, rule, n, |rs, _i| {
        let mut cfg = gen_chain_cfg(rs, &opts);
        let mut r = Prng::sub(rs, "tweak");
        tweak(&mut cfg, &mut r);
        ChainScenario { prop: prop.to_string(), cfg }
    });
}

fn c06(tier: Tier, seed: u64) -> i32 {
    let mut ctx = Ctx::new("C06", tier, seed);
    let n = ctx.n(6000, 400_000);
    // dense small num_tune (every value 0..60), all presets, randomised knobs
    let opts = SwarmOpts { allow_tune0: true, max_tune: 60, max_draws: 12, ..Default::default() };
    chain_batch(&mut ctx, "C06", "dense_small_tune", "swarm config (6 presets x knobs x target), num_tune uniform in 0..=60 incl. 0, fault-free; non-trivial = run crossed the warmup boundary with num_tune>0; distinct = distinct event-log digest", n, opts, |cfg, r| {
        // make sure every num_tune 0..=60 appears often: override from the tweak stream
        let nt = r.below(61);
        retune(cfg, nt);
    });
    // sparse large num_tune
    let n2 = ctx.n(300, 20_000);
    let opts = SwarmOpts { allow_tune0: true, max_tune: 2000, max_draws: 8, max_dim: 4, allow_hard_targets: false, ..Default::default() };
    chain_batch(&mut ctx, "C06", "sparse_large_tune", "as above with num_tune log-uniform in 61..=2000 (quick: up to 400), well-behaved targets", n2, opts, move |cfg, r| {
        let hi = if tier == Tier::Quick { 400.0 } else { 2000.0 };
        let nt = r.log_uniform(61.0, hi) as u64;
        retune(cfg, nt);
    });
    // with density faults (all-divergent / mixed histories): the boundary must not move
    let n3 = ctx.n(1500, 100_000);
    let opts = SwarmOpts { allow_tune0: true, max_tune: 40, max_draws: 10, ..Default::default() };
    chain_batch(&mut ctx, "C06", "faulty_histories", "as dense batch plus 1..6 recoverable-class density faults at seeded evaluation indices (divergent draws, stuck chain)", n3, opts, |cfg, r| {
        let k = r.range(1, 6);
        for _ in 0..k {
            let kind = *r.pick(&[crate::density::FaultKind::RecoverableErr, crate::density::FaultKind::NanLogp, crate::density::FaultKind::EnergyJump, crate::density::FaultKind::NegInfLogp]);
            cfg.faults.push(crate::density::Fault { at: r.below(400), kind });
        }
    });
    ctx.finish(
        "exploration",
        components_engine_a(),
        vec![
            "final step-size window boundary is computed from the public settings exactly as documented (num_tune - floor(step_size_window*num_tune); flow: floor(num_tune*(1-step_size_window)))".into(),
            "observations are the public Progress and statistics only".into(),
        ],
        json!({}),
    )
}

fn retune(cfg: &mut crate::chain::ChainCfg, nt: u64) {
    // re-generate the preset's num_tune consistently (early_window must keep early_end < num_tune for nt>0)
    cfg.preset.set_num_tune(nt);
    fix_early_window(&mut cfg.preset, nt);
    cfg.n_calls = nt + cfg.preset.num_draws();
}

pub fn fix_early_window(p: &mut crate::chain::Preset, nt: u64) {
    use crate::chain::Preset::*;
    let f = |ew: &mut f64| {
        if nt > 0 {
            while (*ew * nt as f64) as u64 >= nt {
                *ew *= 0.5;
            }
        }
    };
    match p {
        DiagNuts(s) => f(&mut s.adapt_options.early_window),
        LowRankNuts(s) => f(&mut s.adapt_options.early_window),
        DiagMclmc(s) => f(&mut s.adapt_options.early_window),
        LowRankMclmc(s) => f(&mut s.adapt_options.early_window),
        _ => {}
    }
}

fn c16(tier: Tier, seed: u64) -> i32 {
    let mut ctx = Ctx::new("C16", tier, seed);
    let n = ctx.n(4000, 300_000);
    let opts = SwarmOpts { allow_tune0: false, max_tune: 50, max_draws: 12, allow_dim0: true, max_dim: 12, ..Default::default() };
    chain_batch(&mut ctx, "C16", "swarm", "6 presets x all store_* flags x mass-matrix options x dimension 0..12, fault-free and natural divergences (funnel); non-trivial = history has a divergence or >1 transformation update", n, opts, |_cfg, _r| {});
    let n2 = ctx.n(3000, 200_000);
    let opts = SwarmOpts { allow_tune0: false, max_tune: 40, max_draws: 10, max_dim: 6, ..Default::default() };
    chain_batch(&mut ctx, "C16", "with_faults", "as swarm plus 1..5 recoverable-class density faults (every kind) at seeded evaluation indices => divergent draws of every cause", n2, opts, |cfg, r| {
        let k = r.range(1, 5);
        for _ in 0..k {
            let kind = *r.pick(&[
                crate::density::FaultKind::RecoverableErr,
                crate::density::FaultKind::NanLogp,
                crate::density::FaultKind::PosInfLogp,
                crate::density::FaultKind::NegInfLogp,
                crate::density::FaultKind::NanGrad,
                crate::density::FaultKind::InfGrad,
                crate::density::FaultKind::EnergyJump,
            ]);
            cfg.faults.push(crate::density::Fault { at: r.below(300), kind });
        }
    });
    let n3 = ctx.n(60, 3000);
    let opts = SwarmOpts { allow_tune0: false, max_tune: 20, max_draws: 5, max_dim: 130, allow_hard_targets: false, ..Default::default() };
    chain_batch(&mut ctx, "C16", "high_dim", "dimensions up to 130 (vector statistics lengths)", n3, opts, |_c, _r| {});
    ctx.finish(
        "exploration",
        components_engine_a(),
        vec!["the schema is what Settings::stat_names/types/dims/event_dims/dim_sizes report for the same math object".into()],
        json!({}),
    )
}

pub fn selfcheck(seed: u64, n: u64) -> i32 {
    // determinism: run n scenarios of each engine twice (fresh threads), compare digests
    let mut bad = 0;
    for i in 0..n {
        let rs = crate::prng::run_seed(seed, "selfcheck", "a", i);
        let cfg = gen_chain_cfg(rs, &SwarmOpts { allow_tune0: true, allow_dim0: true, ..Default::default() });
        let sc = ChainScenario { prop: "C16".into(), cfg };
        let a = crate::driver::run_isolated(&sc, rs);
        let b = crate::driver::run_isolated(&sc, rs ^ 0x55); // different hash seed: engine A must not depend on it
        if a.digest != b.digest {
            eprintln!("NONDETERMINISM engine A run {i}: {:016x} vs {:016x}", a.digest, b.digest);
            bad += 1;
        }
        if std::env::var("VERIF_PRINT_DIGESTS").is_ok() {
            println!("A {i} {:016x}", a.digest);
        }
    }
    if bad > 0 {
        harness_error(&format!("{bad} nondeterministic runs"));
    }
    println!("selfcheck: {n} engine-A scenarios deterministic");
    let _ = <ChainScenario as Scenario>::describe;
    0
}
