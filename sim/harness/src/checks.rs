//! Registry: property id -> batches of scenarios, evidence level, components.

use serde_json::{Value as J, json};

use crate::driver::{Ctx, Scenario, Tier, harness_error};
use crate::prng::Prng;
use crate::props_chain::ChainScenario;
use crate::swarm::{SwarmOpts, gen_chain_cfg};

pub fn components_engine_a() -> J {
    json!({
        "real_code": ["everything under /repo/src reached through Settings::new_chain / Chain::{set_position, expanded_draw}: NUTS tree, MCLMC kernel, leapfrog, transformations, adaptation strategies, step-size adaptation, CpuMath kernels, Storable statistics"],
        "stubs": ["density (CpuLogpFunc): harness targets with exact gradients + fault injector by evaluation index", "flow transformation callbacks: harness affine flow (Flow presets only)"],
        "seams": ["chain RNG seeded from the run seed through Settings::new_chain", "density callback", "hash order: getrandom shim + fresh OS thread per run"],
    })
}

pub fn run_check(prop: &str, tier: Tier, seed: u64) -> i32 {
    match prop {
        "C06" => c06(tier, seed),
        "C16" => c16(tier, seed),
        "C10" => c10(tier, seed),
        "C11" => c11(tier, seed),
        "C12" => c12(tier, seed),
        "C13" => c13(tier, seed),
        "C14" => c14(tier, seed),
        "C15" => c15(tier, seed),
        "C03" => c03(tier, seed),
        "C05" => c05(tier, seed),
        "C18" => c18(tier, seed),
        "C09" => c09(tier, seed),
        "C07" => c07(tier, seed),
        "C08" => c08(tier, seed),
        "C04" => c04(tier, seed),
        "C01" => c01(tier, seed),
        "C02" => c02(tier, seed),
        other => harness_error(&format!("no check registered for {other}")),
    }
}

pub fn replay(doc: &J) -> i32 {
    let prop = doc["property"].as_str().unwrap_or("");
    match prop {
        "C06" | "C16" => crate::driver::replay::<ChainScenario>(doc),
        "C13" if doc["batch"].as_str().unwrap_or("").starts_with("zarr_") => crate::driver::replay::<StoreScenario>(doc),
        "C10" | "C11" | "C12" | "C13" => crate::driver::replay::<crate::props_sched::SchedScenario>(doc),
        "C15" if doc["batch"].as_str().unwrap_or("").starts_with("sampler_") => crate::driver::replay::<crate::props_sched::SchedScenario>(doc),
        "C14" | "C15" => crate::driver::replay::<StoreScenario>(doc),
        "C03" => crate::driver::replay::<TrajScenario>(doc),
        "C05" => crate::driver::replay::<FaultScenario>(doc),
        "C18" => crate::driver::replay::<crate::props_mclmc::MclmcScenario>(doc),
        "C09" => crate::driver::replay::<crate::props_sched_adapt::WindowScenario>(doc),
        "C07" | "C08" => crate::driver::replay::<crate::props_adapt::AdaptScenario>(doc),
        "C04" | "C01" if doc["batch"].as_str().unwrap_or("").starts_with("stationar") => crate::driver::replay::<crate::props_stationary::StationaryScenario>(doc),
        "C04" => crate::driver::replay::<crate::props_posterior::PosteriorScenario>(doc),
        "C01" => crate::driver::replay::<crate::props_c01::NutsScenario>(doc),
        "C02" if doc["batch"].as_str().unwrap_or("").starts_with("real_") => crate::driver::replay::<crate::props_leapfrog_real::RealLeapfrogScenario>(doc),
        "C02" => crate::driver::replay::<crate::props_c01::LeapfrogScenario>(doc),
        other => harness_error(&format!("replay: unknown property {other}")),
    }
}

fn chain_batch(ctx: &mut Ctx, prop: &'static str, batch: &str, rule: &str, n: u64, opts: SwarmOpts, tweak: impl Fn(&mut crate::chain::ChainCfg, &mut Prng) + Sync) {
    ctx.run_batch(batch, rule, n, |rs, _i| {
        let mut cfg = gen_chain_cfg(rs, &opts);
        let mut r = Prng::sub(rs, "tweak");
        tweak(&mut cfg, &mut r);
        ChainScenario { prop: prop.to_string(), cfg, enumerate_faults: false }
    });
}

fn c06(tier: Tier, seed: u64) -> i32 {
    let mut ctx = Ctx::new("C06", tier, seed);
    let n = ctx.n(15000, 400_000);
    // dense small num_tune (every value 0..60), all presets, randomised knobs
    let opts = SwarmOpts { allow_tune0: true, max_tune: 60, max_draws: 12, ..Default::default() };
    chain_batch(&mut ctx, "C06", "dense_small_tune", "swarm config (6 presets x knobs x target), num_tune uniform in 0..=60 incl. 0, fault-free; non-trivial = run crossed the warmup boundary with num_tune>0; distinct = distinct event-log digest", n, opts, |cfg, r| {
        // make sure every num_tune 0..=60 appears often: override from the tweak stream
        let nt = r.below(61);
        retune(cfg, nt);
    });
    // sparse large num_tune
    let n2 = ctx.n(300, 20_000);
    let opts = SwarmOpts { allow_tune0: true, max_tune: 2000, max_draws: 8, max_dim: 4, allow_hard_targets: false, ..Default::default() };
    chain_batch(&mut ctx, "C06", "sparse_large_tune", "as above with num_tune log-uniform in 61..=2000 (quick: up to 400), well-behaved targets", n2, opts, move |cfg, r| {
        let hi = if tier == Tier::Quick { 400.0 } else { 2000.0 };
        let nt = r.log_uniform(61.0, hi) as u64;
        retune(cfg, nt);
    });
    // with density faults (all-divergent / mixed histories): the boundary must not move
    let n3 = ctx.n(4000, 100_000);
    let opts = SwarmOpts { allow_tune0: true, max_tune: 40, max_draws: 10, ..Default::default() };
    chain_batch(&mut ctx, "C06", "faulty_histories", "as dense batch plus 1..6 recoverable-class density faults at seeded evaluation indices (divergent draws, stuck chain)", n3, opts, |cfg, r| {
        let k = r.range(1, 6);
        for _ in 0..k {
            let kind = *r.pick(&[crate::density::FaultKind::RecoverableErr, crate::density::FaultKind::NanLogp, crate::density::FaultKind::EnergyJump, crate::density::FaultKind::NegInfLogp]);
            cfg.faults.push(crate::density::Fault { at: r.below(400), kind });
        }
    });
    // trajectories without a single leapfrog (maxdepth 0, or a model without parameters): the acceptance statistic
    // of such a draw is undefined; the step size must stay a number and the kernel frozen all the same
    let n5 = ctx.n(1500, 40_000);
    let opts5 = SwarmOpts { presets: crate::swarm::NUTS_PRESETS.to_vec(), allow_tune0: true, max_tune: 40, max_draws: 8, max_dim: 4, allow_hard_targets: false, ..Default::default() };
    chain_batch(&mut ctx, "C06", "zero_step_trajectories", "NUTS presets with maxdepth = 0 (every draw returns its start) or a model of dimension 0, all step-size methods, num_tune 0..40: exactly num_tune tuning draws, finite positive step sizes, frozen kernel after warmup", n5, opts5, |cfg, r| {
        if r.chance(0.6) {
            match &mut cfg.preset {
                crate::chain::Preset::DiagNuts(s) => { s.maxdepth = 0; s.mindepth = 0 }
                crate::chain::Preset::LowRankNuts(s) => { s.maxdepth = 0; s.mindepth = 0 }
                crate::chain::Preset::FlowNuts(s) => { s.maxdepth = 0; s.mindepth = 0 }
                _ => {}
            }
        } else {
            cfg.target = crate::density::std_normal(0);
            cfg.init = vec![];
        }
    });
    // every fault position of small runs: the boundary and the frozen kernel must hold whatever evaluation fails
    let n4 = ctx.n(150, 6000);
    let opts4 = SwarmOpts { allow_tune0: false, max_tune: 10, max_draws: 4, max_dim: 3, allow_hard_targets: false, ..Default::default() };
    ctx.run_batch("enumerate_fault_positions", "small runs (num_tune 1..10, <= 4 draws after warmup, short trajectories): a recoverable density error and an energy jump are injected at every evaluation of the fault-free run in turn (strided beyond 160), and every resulting history is judged by the same oracle (tuning flags, frozen transformation and step size after warmup) - a fault exactly at the evaluation that starts a step-size search, on the last warmup draw, ...", n4, |rs, _| {
        let mut cfg = gen_chain_cfg(rs, &opts4);
        let mut r = Prng::sub(rs, "tweak");
        match &mut cfg.preset {
            crate::chain::Preset::DiagNuts(s) => s.maxdepth = s.maxdepth.min(3),
            crate::chain::Preset::LowRankNuts(s) => s.maxdepth = s.maxdepth.min(3),
            crate::chain::Preset::FlowNuts(s) => s.maxdepth = s.maxdepth.min(3),
            _ => {}
        }
        let nt = r.range(1, 10);
        retune(&mut cfg, nt);
        cfg.faults.clear();
        ChainScenario { prop: "C06".into(), cfg, enumerate_faults: true }
    });
    ctx.finish(
        "exploration",
        components_engine_a(),
        vec![
            "final step-size window boundary is computed from the public settings exactly as documented (num_tune - floor(step_size_window*num_tune); flow: floor(num_tune*(1-step_size_window)))".into(),
            "observations are the public Progress and statistics only".into(),
        ],
        json!({}),
    )
}

fn retune(cfg: &mut crate::chain::ChainCfg, nt: u64) {
    // re-generate the preset's num_tune consistently (early_window must keep early_end < num_tune for nt>0)
    cfg.preset.set_num_tune(nt);
    fix_early_window(&mut cfg.preset, nt);
    cfg.n_calls = nt + cfg.preset.num_draws();
}

pub fn fix_early_window(p: &mut crate::chain::Preset, nt: u64) {
    use crate::chain::Preset::*;
    let f = |ew: &mut f64| {
        if nt > 0 {
            while (*ew * nt as f64) as u64 >= nt {
                *ew *= 0.5;
            }
        }
    };
    match p {
        DiagNuts(s) => f(&mut s.adapt_options.early_window),
        LowRankNuts(s) => f(&mut s.adapt_options.early_window),
        DiagMclmc(s) => f(&mut s.adapt_options.early_window),
        LowRankMclmc(s) => f(&mut s.adapt_options.early_window),
        _ => {}
    }
}

fn c16(tier: Tier, seed: u64) -> i32 {
    let mut ctx = Ctx::new("C16", tier, seed);
    let n = ctx.n(10000, 300_000);
    let opts = SwarmOpts { allow_tune0: true, max_tune: 50, max_draws: 12, allow_dim0: true, max_dim: 12, ..Default::default() };
    chain_batch(&mut ctx, "C16", "swarm", "6 presets x all store_* flags x mass-matrix options x dimension 0..12 x num_tune 0..50 (incl. 0), fault-free and natural divergences (funnel); in a third of the runs set_position is called again before a seeded draw (multi-step history: the rebuilt transformation must be reported exactly once); non-trivial = history has a divergence or >1 transformation update", n, opts, |cfg, r| {
        if r.chance(0.2) {
            retune(cfg, r.below(3));
        }
        if r.chance(0.33) && cfg.n_calls > 1 {
            cfg.reinit_at = Some(r.range(1, cfg.n_calls - 1));
        }
    });
    let n2 = ctx.n(8000, 200_000);
    let opts = SwarmOpts { allow_tune0: false, max_tune: 40, max_draws: 10, max_dim: 6, ..Default::default() };
    chain_batch(&mut ctx, "C16", "with_faults", "as swarm plus 1..5 recoverable-class density faults (every kind) at seeded evaluation indices => divergent draws of every cause", n2, opts, |cfg, r| {
        let k = r.range(1, 5);
        for _ in 0..k {
            let kind = *r.pick(&[
                crate::density::FaultKind::RecoverableErr,
                crate::density::FaultKind::NanLogp,
                crate::density::FaultKind::PosInfLogp,
                crate::density::FaultKind::NegInfLogp,
                crate::density::FaultKind::NanGrad,
                crate::density::FaultKind::InfGrad,
                crate::density::FaultKind::EnergyJump,
            ]);
            cfg.faults.push(crate::density::Fault { at: r.below(300), kind });
        }
    });
    let n3 = ctx.n(60, 3000);
    let opts = SwarmOpts { allow_tune0: false, max_tune: 20, max_draws: 5, max_dim: 130, allow_hard_targets: false, ..Default::default() };
    chain_batch(&mut ctx, "C16", "high_dim", "dimensions up to 130 (vector statistics lengths)", n3, opts, |_c, _r| {});
    ctx.finish(
        "exploration",
        components_engine_a(),
        vec!["the schema is what Settings::stat_names/types/dims/event_dims/dim_sizes report for the same math object".into()],
        json!({}),
    )
}

pub fn selfcheck(seed: u64, n: u64) -> i32 {
    // determinism: run n scenarios of each engine twice (fresh threads), compare digests
    let mut bad = 0;
    for i in 0..n {
        let rs = crate::prng::run_seed(seed, "selfcheck", "a", i);
        let cfg = gen_chain_cfg(rs, &SwarmOpts { allow_tune0: true, allow_dim0: true, ..Default::default() });
        let sc = ChainScenario { prop: "C16".into(), cfg, enumerate_faults: false };
        let a = crate::driver::run_isolated(&sc, rs);
        let b = crate::driver::run_isolated(&sc, rs ^ 0x55); // different hash seed: engine A must not depend on it
        if a.digest != b.digest {
            eprintln!("NONDETERMINISM engine A run {i}: {:016x} vs {:016x}", a.digest, b.digest);
            bad += 1;
        }
        if std::env::var("VERIF_PRINT_DIGESTS").is_ok() {
            println!("A {i} {:016x}", a.digest);
        }
    }
    if bad > 0 {
        harness_error(&format!("{bad} nondeterministic runs"));
    }
    println!("selfcheck: {n} engine-A scenarios deterministic (also under a different hash seed)");
    // engine B: the same scenario twice => identical event-log digest (schedule, records, call results, clock)
    let mut bad_b = 0;
    for i in 0..n {
        let rs = crate::prng::run_seed(seed, "selfcheck", "b", i);
        let sc = gen_sched(rs, &GenOpts { prop: "C11", style: ScriptStyle::Mixed, tier: Tier::Quick, allow_abort: true, natural_divergences: true });
        let a = crate::driver::run_isolated(&sc, rs);
        let b = crate::driver::run_isolated(&sc, rs ^ 0x99);
        if a.digest != b.digest || a.interleaving != b.interleaving {
            eprintln!("NONDETERMINISM engine B run {i}: {:016x} vs {:016x}", a.digest, b.digest);
            bad_b += 1;
        }
    }
    if bad_b > 0 {
        harness_error(&format!("{bad_b} nondeterministic engine-B runs"));
    }
    println!("selfcheck: {n} engine-B scenarios (4 schedules each) deterministic");
    // engine C: same hash seed => same digest and same verdict; the history digest must not depend on the hash seed
    let mut bad_c = 0;
    for i in 0..n {
        let rs = crate::prng::run_seed(seed, "selfcheck", "c", i);
        let sc = gen_store(rs, "C14", &[Backend::HashMap, Backend::Arrow, Backend::ZarrSync]);
        let a = crate::driver::run_isolated(&sc, rs);
        let b = crate::driver::run_isolated(&sc, rs);
        let c = crate::driver::run_isolated(&sc, rs ^ 0x1234);
        if a.digest != b.digest || a.violations.len() != b.violations.len() || a.digest != c.digest {
            eprintln!("NONDETERMINISM engine C run {i}");
            bad_c += 1;
        }
    }
    if bad_c > 0 {
        harness_error(&format!("{bad_c} nondeterministic engine-C runs"));
    }
    println!("selfcheck: {n} engine-C scenarios deterministic");
    let _ = <ChainScenario as Scenario>::describe;
    0
}

// ------------------------------------------------------------------------------------------------
// engine B

pub fn components_engine_b() -> J {
    json!({
        "real_code": ["Sampler::{new, pause, resume, progress, flush, inspect, wait_timeout, abort}, the controller loop, ChainProcess::start and the chain loop, finalize_many — /repo/src/sampler.rs compiled with --cfg nuts_rs_verif; the chains themselves (all six presets) and CpuMath"],
        "stubs": ["rayon pool: FIFO worker-pool stand-in (nuts_rs_verif_rt::ThreadPool, num_threads workers, scope body occupies one, panics re-raised at scope end)", "std Mutex/mpsc/thread: shuttle's models", "Instant/recv_timeout: simulated clock, timer expiry chosen by the scheduler", "Model and density: harness stubs with fault injection", "storage backend: harness recording backend with fault injection"],
        "seams": ["every lock/send/recv/spawn/join/yield is a scheduling point decided by the harness's seeded scheduler (sticky-random and PCT-like personalities)", "simulated clock advanced by per-chain density cost", "settings.seed from the run seed"],
    })
}

use crate::gen_sched::{GenOpts, ScriptStyle, gen_sched};

fn c10(tier: Tier, seed: u64) -> i32 {
    let mut ctx = Ctx::new("C10", tier, seed);
    let n = ctx.n(1500, 150_000);
    ctx.run_batch("mixed_scripts", "scenario = settings (6 presets, 1..6 chains, 1..4 cores, 0..16 draws) + tiny model + user script (pause/resume/progress/flush/inspect/short waits) x 4 (thorough 8) seeded schedules; every execution's per-chain records are compared bitwise with an uninterrupted FIFO single-core run of the same settings, and with runs of one chain more / fewer; non-trivial = >4 context switches and >=1 recorded draw; distinct = distinct event-log digest", n, |rs, _| {
        gen_sched(rs, &GenOpts { prop: "C10", style: ScriptStyle::Mixed, tier, allow_abort: true, natural_divergences: true })
    });
    let n2 = ctx.n(700, 70_000);
    ctx.run_batch("pause_resume", "as above with pause/resume-focused scripts", n2, |rs, _| {
        gen_sched(rs, &GenOpts { prop: "C10", style: ScriptStyle::PauseFocused, tier, allow_abort: false, natural_divergences: true })
    });
    let n3 = ctx.n(48, 1200);
    ctx.run_batch("wide_model", "as above for models with 2^16..2^18 unconstrained parameters (few chains, few draws, depth <= 2): work that the math back-end only splits up for large vectors must not make a chain depend on the number of cores, on the other chains or on the schedule", n3, |rs, i| {
        let mut sc = gen_sched(rs, &GenOpts { prop: "C10", style: ScriptStyle::Mixed, tier, allow_abort: false, natural_divergences: false });
        let mut r = Prng::sub(rs, "wide");
        let d = *r.pick(&[1usize << 16, 70_001, 100_000, 1 << 17, 200_003, 1 << 18]);
        sc.model.target = crate::density::std_normal(d);
        sc.model.density_faults.clear();
        let nc = r.range(1, 2) as usize;
        // diagonal NUTS: the low-rank and flow strategies are quadratic in memory for such models
        // (MCLMC takes hundreds of steps per draw with default settings: too slow for this width)
        let _ = i;
        let mut s = nuts_rs::DiagNutsSettings::default();
        s.num_chains = nc;
        s.maxdepth = 2;
        s.seed = r.next_u64();
        sc.preset = crate::chain::Preset::DiagNuts(s);
        let nt = r.range(1, 3);
        sc.preset.set_num_tune(nt);
        fix_early_window(&mut sc.preset, nt);
        sc.preset.set_num_draws(r.range(1, 2));
        sc.num_cores = r.range(1, 4) as usize;
        sc.n_schedules = 2;
        sc
    });
    ctx.finish("exploration", components_engine_b(), vec![
        "the uninterrupted trace is taken from the system itself (FIFO schedule, one core, no commands), not from a re-implementation of the seeding protocol".into(),
        "rayon is a stand-in; work inside one chain is sequential in the real code too".into(),
    ], json!({}))
}

fn c11(tier: Tier, seed: u64) -> i32 {
    let mut ctx = Ctx::new("C11", tier, seed);
    let n = ctx.n(3600, 200_000);
    ctx.run_batch("mixed_scripts", "scenario as C10 (scripts incl. repeated pause, resume without pause, commands after completion, abort while paused / before any chain started; chains of different simulated speed; finite/absent progress-callback rate) x seeded schedules; invariants: no deadlock (shuttle: all tasks blocked), no livelock (step bound), every call returns; oracles: complete traces or exact prefixes, progress()/callback/inspect snapshots agree exactly with the recorded trace; non-trivial = >4 context switches with a script or an abort", n, |rs, _| {
        gen_sched(rs, &GenOpts { prop: "C11", style: ScriptStyle::Mixed, tier, allow_abort: true, natural_divergences: true })
    });
    let n2 = ctx.n(1000, 50_000);
    ctx.run_batch("pause_then_abort", "pause-focused scripts, half of them ending in abort while paused", n2, |rs, _| {
        let mut sc = gen_sched(rs, &GenOpts { prop: "C11", style: ScriptStyle::PauseFocused, tier, allow_abort: true, natural_divergences: false });
        let mut r = Prng::sub(rs, "tweak");
        if r.chance(0.5) {
            sc.ending = crate::props_sched::Ending::Abort;
            // drop the trailing resume(s): abort while paused
            while matches!(sc.script.last(), Some(crate::props_sched::UserCmd::Resume)) {
                sc.script.pop();
            }
        }
        sc
    });
    ctx.finish("exploration", components_engine_b(), vec![
        "liveness is stated as: the final wait loop (finite timeouts) obtains a result within 20000 timeouts and 3e6 scheduler steps once the script is over".into(),
        "the script never waits for completion while paused (user error)".into(),
    ], json!({}))
}

fn c12(tier: Tier, seed: u64) -> i32 {
    let mut ctx = Ctx::new("C12", tier, seed);
    let n = ctx.n(4400, 250_000);
    ctx.run_batch("pause_resume", "pause-focused scripts (pause at a seeded point, progress snapshot, many yields of the user task so chains get every chance to overrun, resume; repeated pauses, double pause, double resume) x seeded schedules; oracle over global event sequence numbers: draws recorded per chain between return of pause() and next resume() <= 1 + earlier resume commands; unstarted chains record nothing; final trace equals the uninterrupted run; non-trivial = at least one pause interval checked", n, |rs, _| {
        gen_sched(rs, &GenOpts { prop: "C12", style: ScriptStyle::PauseFocused, tier, allow_abort: false, natural_divergences: false })
    });
    let n2 = ctx.n(1200, 60_000);
    ctx.run_batch("mixed_scripts", "mixed scripts (resume without pause, pause bursts)", n2, |rs, _| {
        gen_sched(rs, &GenOpts { prop: "C12", style: ScriptStyle::Mixed, tier, allow_abort: false, natural_divergences: false })
    });
    ctx.finish("exploration", components_engine_b(), vec![
        "the bound uses only commands the user issued (a sound upper bound of what a chain may still hold), not mailbox contents".into(),
    ], json!({}))
}

fn c13(tier: Tier, seed: u64) -> i32 {
    let mut ctx = Ctx::new("C13", tier, seed);
    let n = ctx.n(96, 3000);
    ctx.run_batch("enumerate_faults", "per base run (<=3 chains, <=6 draws, scripts with flush/inspect/pause, wait or abort ending): EVERY fault position is injected in turn — an unrecoverable density error at every evaluation index of every chain (strided beyond 48 per chain), recoverable-class faults at every third, a record_sample error at every (chain, draw), chain/trace finalize, flush, inspect, new_trace, initialize_trace_for_chain, Model::math for controller and each chain, init_position error, first 1/7/all initialisation attempts failing — each under 2 seeded schedules; non-trivial = a fatal fault fired (recorded by the stub)", n, |rs, i| {
        let mut sc = gen_sched(rs, &GenOpts { prop: "C13", style: ScriptStyle::Mixed, tier, allow_abort: true, natural_divergences: false });
        let mut r = Prng::sub(rs, "tweak");
        // small base runs so that every position can be enumerated
        let nc = r.range(1, 3) as usize;
        match &mut sc.preset {
            crate::chain::Preset::DiagNuts(s) => { s.num_chains = nc; s.maxdepth = s.maxdepth.min(2) }
            crate::chain::Preset::LowRankNuts(s) => { s.num_chains = nc; s.maxdepth = s.maxdepth.min(2) }
            crate::chain::Preset::FlowNuts(s) => { s.num_chains = nc; s.maxdepth = s.maxdepth.min(2) }
            crate::chain::Preset::DiagMclmc(s) => s.num_chains = nc,
            crate::chain::Preset::LowRankMclmc(s) => s.num_chains = nc,
            crate::chain::Preset::FlowMclmc(s) => s.num_chains = nc,
        }
        // every eighth base run is a run of zero draws (a chain that fails before its first draw must be
        // reported all the same), every eighth one has a single draw
        let (cap_t, cap_d) = match i % 8 { 7 => (0, 0), 3 => (if r.chance(0.5) { 1 } else { 0 }, 1), _ => (3, 3) };
        let nt = sc.preset.num_tune().min(cap_t);
        sc.preset.set_num_tune(nt);
        fix_early_window(&mut sc.preset, nt);
        let nd = sc.preset.num_draws().min(cap_d);
        sc.preset.set_num_draws(nd);
        sc.n_schedules = 2;
        sc.enumerate_faults = true;
        sc
    });
    let n2 = ctx.n(800, 40_000);
    ctx.run_batch("two_faulty_chains", "two or three simultaneous faults in different chains / layers at seeded positions, larger runs (<=6 chains), 4-8 schedules", n2, |rs, _| {
        let mut sc = gen_sched(rs, &GenOpts { prop: "C13", style: ScriptStyle::Mixed, tier, allow_abort: true, natural_divergences: false });
        let mut r = Prng::sub(rs, "faults");
        let nc = crate::props_sched::num_chains(&sc.preset) as u64;
        let t = sc.preset.num_tune() + sc.preset.num_draws();
        let k = r.range(2, 3);
        for _ in 0..k {
            let f = match r.below(6) {
                0 | 1 => crate::props_sched::FaultDesc::Density { instance: r.range(1, nc) as u32, at: r.below(120), kind: crate::density::FaultKind::UnrecoverableErr },
                2 => crate::props_sched::FaultDesc::Density { instance: r.range(1, nc) as u32, at: r.below(120), kind: crate::density::FaultKind::RecoverableErr },
                3 => crate::props_sched::FaultDesc::RecordErr { chain: r.below(nc), call: r.below(t.max(1)) },
                4 => crate::props_sched::FaultDesc::MathFail { call: r.range(1, nc) as u32 },
                _ => crate::props_sched::FaultDesc::ChainFinalizeErr { chain: r.below(nc) },
            };
            sc = sc.with_fault(&f);
        }
        sc
    });
    // the real Zarr backends over a failing store (engine C): the error must come out of the backend's own
    // calls; that an error of record_sample / flush / finalize comes out of the sampler is shown above
    let n3 = ctx.n(300, 40_000);
    ctx.run_batch("zarr_backend_write_faults", "real Zarr (sync) backend over a store whose k-th write fails; k seeded over the whole run or counted back from the last write of the fault-free run (final chunks, finalize): some call of the backend must return Err, none may panic; non-trivial = the fault fired", n3, |rs, i| {
        let mut sc = gen_store(rs, "C13", &[Backend::ZarrSync]);
        let mut r = Prng::sub(rs, "storefault");
        if i % 2 == 0 { sc.fail_write = Some(r.below(400)) } else { sc.fail_write_from_end = Some(r.below(16)) }
        sc
    });
    let n4 = ctx.n(120, 12_000);
    ctx.run_batch("zarr_async_backend_write_faults", "real async Zarr backend (tokio runtime, seeded write delays) over a store whose k-th write fails, biased to the last writes of a chain (queued chunk writes joined in finalize)", n4, |rs, i| {
        let mut sc = gen_store(rs, "C13", &[Backend::ZarrAsync]);
        let mut r = Prng::sub(rs, "asyncfault");
        let nt = sc.preset.num_tune().min(8);
        sc.preset.set_num_tune(nt);
        fix_early_window(&mut sc.preset, nt);
        let nd = sc.preset.num_draws().min(8);
        sc.preset.set_num_draws(nd);
        sc.vars.truncate(3);
        sc.chunk_size = *r.pick(&[1u64, 2, 4, nd.max(1)]);
        sc.flush_prob = *r.pick(&[0.0, 0.0, 0.3]);
        if i % 3 == 0 { sc.fail_write = Some(r.range(60, 400)) } else { sc.fail_write_from_end = Some(r.below(24)) }
        sc
    });
    let mut comp = components_engine_b();
    if let (Some(o), Some(c)) = (comp.as_object_mut(), components_engine_c().as_object()) {
        for k in ["real_code", "stubs", "seams"] {
            if let (Some(J::Array(a)), Some(J::Array(b))) = (o.get_mut(k), c.get(k)) {
                a.extend(b.iter().cloned());
            }
        }
    }
    ctx.finish("fault_enumeration", comp, vec![
        "a fault counts only if the stub recorded that it fired (a fault scheduled behind an abort or in a chain that stopped earlier does not)".into(),
        "abort() returning Ok after a chain reported an error on the results channel is not flagged: the statement's 'through wait_timeout/abort' is satisfied by wait_timeout (DESIGN.md §5 C13)".into(),
    ], json!({}))
}

// ------------------------------------------------------------------------------------------------
// engine C

use crate::storesim::{Backend, StoreScenario};

pub fn components_engine_c() -> J {
    json!({
        "real_code": ["storage backends under /repo/src/storage (HashMap, ndarray, Arrow, Zarr sync) driven through StorageConfig/TraceStorage/ChainStorage (hook H2), zarrs array code, the real chains that produce the recorded histories (statistics, Progress)"],
        "stubs": ["density + expanded variables of every type/shape (harness)", "Zarr store: FaultStore over zarrs MemoryStore (write counting, k-th write fails, snapshots = what a fresh reader sees)"],
        "seams": ["hash-map iteration order: getrandom shim + fresh OS thread per run (part of the seed)", "seeded interleaving of chains, flush and inspect calls", "store trait"],
        "not_covered": ["Zarr FilesystemStore; tokio-internal scheduling of the async writer (see DESIGN.md §9); CSV flush() is a no-op by design"],
    })
}

pub fn gen_store(seed: u64, prop: &'static str, backends: &[Backend]) -> StoreScenario {
    use crate::density::{VarSpec, VarType};
    let mut rc = Prng::sub(seed, "config");
    let mut rw = Prng::sub(seed, "workload");
    let kind = *rc.pick(&crate::swarm::ALL_PRESETS);
    let is_mclmc = matches!(kind, crate::swarm::PresetKind::DiagMclmc | crate::swarm::PresetKind::LowRankMclmc | crate::swarm::PresetKind::FlowMclmc);
    let num_tune = *rc.pick(&[0u64, 1, 2, 3, 5, 8, 13, 20]);
    let num_draws = *rc.pick(&[0u64, 1, 2, 3, 5, 8, 13]);
    // (num_tune = num_draws = 0 included: a trace without any draw must finalise to empty columns)
    let so = SwarmOpts::default();
    let mut preset = crate::swarm::gen_preset(&mut rc, kind, num_tune, num_draws, &so);
    let nc = rc.range(1, 4) as usize;
    match &mut preset {
        crate::chain::Preset::DiagNuts(s) => { s.num_chains = nc; s.maxdepth = s.maxdepth.min(4) }
        crate::chain::Preset::LowRankNuts(s) => { s.num_chains = nc; s.maxdepth = s.maxdepth.min(4) }
        crate::chain::Preset::FlowNuts(s) => { s.num_chains = nc; s.maxdepth = s.maxdepth.min(4) }
        crate::chain::Preset::DiagMclmc(s) => s.num_chains = nc,
        crate::chain::Preset::LowRankMclmc(s) => s.num_chains = nc,
        crate::chain::Preset::FlowMclmc(s) => s.num_chains = nc,
    }
    let dim = if is_mclmc { rc.usize_in(2, 4) } else { rc.usize_in(1, 4) };
    // targets: mostly well-behaved; funnel for natural divergences
    let target = if dim >= 2 && rw.chance(0.3) { crate::density::Target::Funnel { dim } } else { crate::density::random_target(&mut rw, dim, false) };
    // expanded variables of several types and shapes
    let mut vars = vec![VarSpec { name: "value".into(), ty: VarType::F64, dims: vec!["dim".into()], special_permille: 0 }];
    let mut extra_dims = vec![];
    if rw.chance(0.7) {
        extra_dims.push(("a".to_string(), rw.range(1, 3)));
        extra_dims.push(("b".to_string(), rw.range(1, 3)));
        let n = rw.range(1, 6);
        for i in 0..n {
            let ty = rw.pick(&[VarType::F64, VarType::F32, VarType::I64, VarType::U64, VarType::Bool, VarType::Str]).clone();
            let dims: Vec<String> = if ty == VarType::Str { vec![] } else {
                match rw.below(3) { 0 => vec![], 1 => vec!["a".into()], _ => vec!["a".into(), "b".into()] }
            };
            vars.push(VarSpec { name: format!("v{i}"), ty, dims, special_permille: if rw.chance(0.5) { 200 } else { 0 } });
        }
    }
    let mut faults = vec![];
    if rw.chance(0.5) {
        for _ in 0..rw.range(1, 4) {
            let kind = *rw.pick(&[crate::density::FaultKind::RecoverableErr, crate::density::FaultKind::NanLogp, crate::density::FaultKind::EnergyJump, crate::density::FaultKind::InfGrad]);
            faults.push(crate::density::Fault { at: rw.below(150), kind });
        }
    }
    let total = num_tune + num_draws;
    StoreScenario {
        prop: prop.to_string(),
        preset,
        target,
        vars,
        extra_dims,
        density_faults: faults,
        chain_seed: rw.next_u64(),
        backends: backends.to_vec(),
        chunk_size: *rc.pick(&[1u64, 2, 3, 5, 8, num_tune.max(1), num_draws.max(1), total + 7]),
        store_warmup: !rc.chance(0.25),
        ops_seed: rw.next_u64(),
        prefix: if rw.chance(0.2) { Some(rw.below(total + 1)) } else { None },
        flush_prob: if prop == "C15" { *rw.pick(&[0.3, 0.6, 1.0]) } else { *rw.pick(&[0.0, 0.1, 0.3]) },
        inspect_prob: *rw.pick(&[0.0, 0.0, 0.1, 0.3]),
        filesystem: false,
        fail_write: None,
        fail_write_from_end: None,
        crash_every_write: false,
    }
}

fn c14(tier: Tier, seed: u64) -> i32 {
    let mut ctx = Ctx::new("C14", tier, seed);
    let n = ctx.n(1500, 150_000);
    ctx.run_batch("all_backends", "history = real chains (6 presets, 1..4 chains, num_tune/num_draws in {0,1,2,3,5,8,13,20}, natural and injected divergences, transformation updates) + expanded variables of every type (f64,f32,i64,u64,bool,string) and shape (scalar, vector, matrix) with NaN/inf/-0.0/empty/non-ASCII values; fed through the storage traits into HashMap, ndarray, Arrow and Zarr(sync, MemoryStore) in a seeded interleaving of chains with flush/inspect calls, aborted prefixes, chunk sizes, store_warmup on/off; each run in a fresh thread with seeded hash order; read-back (finalize and inspect; Zarr via a fresh zarrs reader on a store snapshot) compared value by value with the recording model; distinct = distinct history digest", n, |rs, _| {
        gen_store(rs, "C14", &[Backend::HashMap, Backend::Arrow, Backend::Ndarray, Backend::ZarrSync])
    });
    let n2 = ctx.n(300, 30_000);
    ctx.run_batch("zarr_async", "same histories through the async Zarr writer (tokio runtime, in-memory store behind the async store traits with seeded write delays); read back right after finalize returned", n2, |rs, _| {
        let mut sc = gen_store(rs, "C14", &[Backend::ZarrAsync]);
        // keep the number of store writes moderate (every chunk of every variable is one write)
        sc.chunk_size = sc.chunk_size.max(2);
        sc
    });
    let n3 = ctx.n(500, 50_000);
    ctx.run_batch("csv", "same histories through the CSV backend (real files in a per-run scratch directory, precision 6/12/17, store_warmup on/off), re-parsed and compared cell by cell: the seven CmdStan statistic columns and every element of every numeric variable in row-major order, to the printed precision", n3, |rs, _| {
        let mut sc = gen_store(rs, "C14", &[Backend::Csv]);
        // strings with separators are not CSV-safe and not printed by this backend
        sc.vars.retain(|v| v.ty != crate::density::VarType::Str);
        sc
    });
    ctx.finish("exploration", components_engine_c(), vec![
        "the recording model is the list of values handed to record_sample".into(),
        "NaN payloads are not compared (canonical NaN)".into(),
        "ndarray stores events densely by draw; only the rows of draws on which a value was recorded are compared".into(),
    ], json!({}))
}

fn c15(tier: Tier, seed: u64) -> i32 {
    let mut ctx = Ctx::new("C15", tier, seed);
    let n = ctx.n(800, 20_000);
    ctx.run_batch("flush_points", "histories as C14; a flush (one chain or all, sometimes twice, also before any draw) follows recorded draws with probability 0.3/0.6/1.0 (=> a crash point after every draw), chunk sizes {1,2,3,5,8,num_tune,num_draws,larger than both}; after each flush a fresh zarrs reader on a snapshot of the store must see the acknowledged prefix of every chain (all earlier acknowledgements re-checked at every later flush and after finalize); every fifth run uses the real zarrs FilesystemStore on a scratch directory; non-trivial = at least one flush", n, |rs, i| {
        let mut sc = gen_store(rs, "C15", &[Backend::ZarrSync]);
        // every fifth run on the real filesystem store (scratch directory under /verif/.scratch)
        sc.filesystem = i % 5 == 4;
        sc
    });
    let n2 = ctx.n(400, 8_000);
    ctx.run_batch("store_write_faults", "as above with the k-th store write failing (k seeded over the run's writes): the failing call returns Err without panic and every prefix acknowledged by an earlier flush still reads back", n2, |rs, _| {
        let mut sc = gen_store(rs, "C15", &[Backend::ZarrSync]);
        let mut r = Prng::sub(rs, "storefault");
        sc.fail_write = Some(r.below(400));
        sc.filesystem = r.chance(0.25);
        sc
    });
    let n6 = ctx.n(120, 4_000);
    ctx.run_batch("crash_between_store_writes", "sync writer over the in-memory store with a snapshot after EVERY store write (set / erase, metadata included): a process that stops between two store writes - in the middle of a later record_sample, of a later flush, of the warmup->sampling switch or of finalize - must still find every prefix acknowledged by the flushes that had returned before that write (up to 160 crash points per run, evenly strided)", n6, |rs, _| {
        let mut sc = gen_store(rs, "C15", &[Backend::ZarrSync]);
        let mut r = Prng::sub(rs, "crashwrite");
        sc.crash_every_write = true;
        sc.flush_prob = *r.pick(&[0.15, 0.3, 0.6]);
        sc.vars.truncate(4);
        sc
    });
    let n7 = ctx.n(60, 1_000);
    ctx.run_batch("async_crash_between_store_writes", "async writer: the same crash points - a snapshot after every write that reaches the store, in whatever order tokio completes the queued writes (seeded delays) - each must hold the prefixes acknowledged by the flushes that had returned by then", n7, |rs, _| {
        let mut sc = gen_store(rs, "C15", &[Backend::ZarrAsync]);
        let mut r = Prng::sub(rs, "asynccrash");
        sc.crash_every_write = true;
        sc.flush_prob = *r.pick(&[0.3, 0.6]);
        let nt = sc.preset.num_tune().min(8);
        sc.preset.set_num_tune(nt);
        fix_early_window(&mut sc.preset, nt);
        let nd = sc.preset.num_draws().min(8);
        sc.preset.set_num_draws(nd);
        sc.chunk_size = *r.pick(&[2u64, 3, 4, 5]);
        sc.vars.truncate(3);
        sc
    });
    let n3 = ctx.n(250, 2_500);
    ctx.run_batch("async_flush_points", "async Zarr writer: a quarter of all store writes complete only after a seeded delay of 1..12 ms, so a write that flush()/finalize did not wait for is missing from the snapshot taken when the call returns; flush after (almost) every draw, chunk sizes incl. 1 (flush with empty buffers and writes still in flight)", n3, |rs, _| {
        let mut sc = gen_store(rs, "C15", &[Backend::ZarrAsync]);
        let mut r = Prng::sub(rs, "async");
        sc.flush_prob = *r.pick(&[0.5, 1.0]);
        // small runs: every write may sleep
        let nt = sc.preset.num_tune().min(8);
        sc.preset.set_num_tune(nt);
        fix_early_window(&mut sc.preset, nt);
        let nd = sc.preset.num_draws().min(8);
        sc.preset.set_num_draws(nd);
        sc.chunk_size = *r.pick(&[1u64, 2, 3, 4]);
        sc.vars.truncate(3);
        sc
    });
    let n4 = ctx.n(100, 1_000);
    ctx.run_batch("async_store_write_faults", "async writer with the k-th store write failing", n4, |rs, _| {
        let mut sc = gen_store(rs, "C15", &[Backend::ZarrAsync]);
        let mut r = Prng::sub(rs, "asyncfault");
        let nt = sc.preset.num_tune().min(8);
        sc.preset.set_num_tune(nt);
        fix_early_window(&mut sc.preset, nt);
        let nd = sc.preset.num_draws().min(8);
        sc.preset.set_num_draws(nd);
        sc.vars.truncate(3);
        sc.fail_write = Some(r.range(60, 400));
        sc
    });
    let n5 = ctx.n(1200, 120_000);
    ctx.run_batch("sampler_flush_forwarding", "engine B (the real Sampler under the seeded scheduler, recording storage): scripts with flush calls while running and while paused (pause, flush, flush again, resume; flush twice in a row; flush around the chain's last draw) x interleavings; a flush() that returned Ok must have called ChainStorage::flush of every chain after the last draw that chain had recorded when flush() was invoked, unless that chain's storage was already finalised", n5, |rs, _| {
        let mut sc = gen_sched(rs, &GenOpts { prop: "C15", style: ScriptStyle::Mixed, tier, allow_abort: false, natural_divergences: false });
        let mut r = Prng::sub(rs, "flushscript");
        // flush-heavy script: pauses with one or two flushes inside, flushes while running
        let mut script = vec![];
        for _ in 0..r.range(1, 4) {
            script.push(crate::props_sched::UserCmd::Yield(r.range(0, 12) as u32));
            match r.below(4) {
                0 => script.push(crate::props_sched::UserCmd::Flush),
                1 => { script.push(crate::props_sched::UserCmd::Flush); script.push(crate::props_sched::UserCmd::Flush); }
                _ => {
                    script.push(crate::props_sched::UserCmd::Pause);
                    script.push(crate::props_sched::UserCmd::Flush);
                    script.push(crate::props_sched::UserCmd::Yield(r.range(0, 30) as u32));
                    script.push(crate::props_sched::UserCmd::Flush);
                    if r.chance(0.3) { script.push(crate::props_sched::UserCmd::Yield(r.range(0, 10) as u32)); script.push(crate::props_sched::UserCmd::Flush); }
                    script.push(crate::props_sched::UserCmd::Resume);
                }
            }
        }
        sc.script = script;
        sc.ending = crate::props_sched::Ending::WaitDone;
        sc
    });
    let mut comp = components_engine_c();
    if let (Some(o), Some(c)) = (comp.as_object_mut(), components_engine_b().as_object()) {
        for k in ["real_code", "stubs", "seams"] {
            if let (Some(J::Array(a)), Some(J::Array(b))) = (o.get_mut(k), c.get(k)) {
                a.extend(b.iter().cloned());
            }
        }
    }
    ctx.finish("fault_enumeration", comp, vec![
        "crash = the process stops right after flush() returned; what survives is the store content at that moment (snapshot)".into(),
        "async writer: tokio is not under the simulator; write completion is delayed by seeded real-time sleeps, the verdict only depends on 'did the call wait for its writes'".into(),
        "filesystem store: sync writer only (a fifth of the flush-point runs, a quarter of the write-fault runs); the crash point is 'the process stops between two calls', torn or lost file writes inside a call are outside the property's quantifier".into(),
    ], json!({}))
}

// ------------------------------------------------------------------------------------------------
// C03 / C05 (engine A with evaluation records and the SimMath seam)

use crate::props_fault::{FaultScenario, TrajScenario};

pub fn components_engine_a_math() -> J {
    json!({
        "real_code": ["everything under /repo/src reached through Settings::new_chain / Chain::{set_position, expanded_draw}; every Math method is executed by the real CpuMath"],
        "stubs": ["density (CpuLogpFunc) with fault injection by evaluation index and a record of every evaluation (position, value, gradient)", "flow callbacks (Flow presets)"],
        "seams": ["SimMath: delegating Math implementation that records momentum draws, ESH updates and normalisations stamped with the evaluation counter", "chain RNG from the run seed", "density callback"],
    })
}

fn c03(tier: Tier, seed: u64) -> i32 {
    let mut ctx = Ctx::new("C03", tier, seed);
    let n = ctx.n(8000, 300_000);
    let opts = SwarmOpts { presets: crate::swarm::NUTS_PRESETS.to_vec(), allow_tune0: true, allow_dim0: true, max_tune: 40, max_draws: 10, max_dim: 8, ..Default::default() };
    ctx.run_batch("swarm", "NUTS presets x randomised maxdepth/mindepth/max_energy_error/target_integration_time/kinetic energy/extra_doublings x targets (incl. funnel, flat coordinate, dimension 0 and 1) x histories with natural and injected divergences; every draw is checked against the record of density evaluations of its trajectory (membership, logp/gradient of the returned state, index 0 iff not moved, depth/steps/index bounds, at least one step, maxdepth flag); non-trivial = at least one draw moved", n, |rs, _| {
        let mut cfg = gen_chain_cfg(rs, &opts);
        let mut r = Prng::sub(rs, "tweak");
        // extra_doublings is outside C03's quantifier (depth may then exceed maxdepth by design)
        match &mut cfg.preset {
            crate::chain::Preset::DiagNuts(s) => s.extra_doublings = 0,
            crate::chain::Preset::LowRankNuts(s) => s.extra_doublings = 0,
            crate::chain::Preset::FlowNuts(s) => s.extra_doublings = 0,
            _ => {}
        }
        // a tight energy limit in a third of the runs: trajectories whose error creeps over the limit in several
        // steps, none of which is large alone
        if r.chance(0.33) {
            let mee = *r.pick(&[0.05, 0.2, 1.0, 3.0]);
            match &mut cfg.preset {
                crate::chain::Preset::DiagNuts(s) => s.max_energy_error = mee,
                crate::chain::Preset::LowRankNuts(s) => s.max_energy_error = mee,
                crate::chain::Preset::FlowNuts(s) => s.max_energy_error = mee,
                _ => {}
            }
        }
        if r.chance(0.4) {
            for _ in 0..r.range(1, 4) {
                let kind = *r.pick(&[crate::density::FaultKind::RecoverableErr, crate::density::FaultKind::NanLogp, crate::density::FaultKind::EnergyJump, crate::density::FaultKind::InfGrad, crate::density::FaultKind::PosInfLogp]);
                cfg.faults.push(crate::density::Fault { at: r.below(300), kind });
            }
        }
        TrajScenario { cfg }
    });
    let n2 = ctx.n(6000, 200_000);
    let opts2 = SwarmOpts { presets: vec![crate::swarm::PresetKind::DiagNuts], allow_tune0: false, max_tune: 40, max_draws: 8, max_dim: 6, ..Default::default() };
    ctx.run_batch("next_trajectory_start", "Diag NUTS, Euclidean, store_mass_matrix on, targets including scales 1e-12..1e12: the first evaluated position of every trajectory must be the leapfrog image of the previous draw under the reported scales, the step size in force and the momentum seen at the SimMath seam ('the next trajectory starts from it')", n2, |rs, _| {
        let mut cfg = gen_chain_cfg(rs, &opts2);
        let mut r = Prng::sub(rs, "tweak");
        if let crate::chain::Preset::DiagNuts(s) = &mut cfg.preset {
            s.trajectory_kind = nuts_rs::KineticEnergyKind::Euclidean;
            s.extra_doublings = 0;
            s.adapt_options.mass_matrix_options.store_mass_matrix = true;
            s.target_integration_time = None;
        }
        if r.chance(0.5) {
            // badly scaled diagonal normal (the clamp range of the estimators is 1e-20..1e20 in variance)
            let d = cfg.target.dim().max(1);
            let sig: Vec<f64> = (0..d).map(|_| *r.pick(&[1.0, 1e-3, 1e3, 1e-8, 1e8, 5e-11, 3e11, 1e-12, 1e12])).collect();
            cfg.target = crate::density::Target::DiagNormal { mu: vec![0.0; d], sigma: sig.clone() };
            cfg.init = (0..d).map(|i| sig[i] * r.uniform(-1.0, 1.0)).collect();
        }
        TrajScenario { cfg }
    });
    ctx.finish("exploration", components_engine_a_math(), vec![
        "near-ties (a trajectory evaluation at a position bit-identical to the start) are skipped for the index-0 rule and counted".into(),
        "the per-leapfrog U-turn audit of sub-trajectories (needs a Collector hook) is not built; stopping is judged by the depth/steps bounds only".into(),
    ], json!({}))
}

fn c05(tier: Tier, seed: u64) -> i32 {
    let mut ctx = Ctx::new("C05", tier, seed);
    let n = ctx.n(64, 1500);
    let opts = SwarmOpts { allow_tune0: false, max_tune: 12, max_draws: 6, max_dim: 4, allow_hard_targets: false, ..Default::default() };
    ctx.run_batch("enumerate_positions", "per base run (all six presets, num_tune<=12, num_draws<=6, dimension<=4): EVERY density evaluation index (all if <=500, else all of set_position + even stride) x EVERY fault kind (recoverable/unrecoverable error, NaN/+inf/-inf value, NaN/inf gradient component, energy jump) is injected in turn, plus 40 seeded fault pairs (second fault 1..20 evaluations later); phase labels (set_position / trajectory leapfrog / search base / search trial) come from a fault-free dry run of the same seed; non-trivial = a fault fired", n, |rs, _| {
        let mut cfg = gen_chain_cfg(rs, &opts);
        // keep trajectories short so that every position can be enumerated
        match &mut cfg.preset {
            crate::chain::Preset::DiagNuts(s) => s.maxdepth = s.maxdepth.min(4),
            crate::chain::Preset::LowRankNuts(s) => s.maxdepth = s.maxdepth.min(4),
            crate::chain::Preset::FlowNuts(s) => s.maxdepth = s.maxdepth.min(4),
            _ => {}
        }
        let mut r = Prng::sub(rs, "tweak");
        FaultScenario { cfg, enumerate: true, max_positions: 500, pairs: 40, pair_seed: r.next_u64() }
    });
    let n2 = ctx.n(6000, 300_000);
    let opts2 = SwarmOpts { allow_tune0: true, max_tune: 60, max_draws: 20, max_dim: 8, ..Default::default() };
    ctx.run_batch("sampled_positions", "longer runs and harder targets (funnel, banana, heavy tails): 1..3 faults at seeded evaluation indices", n2, |rs, _| {
        let mut cfg = gen_chain_cfg(rs, &opts2);
        let mut r = Prng::sub(rs, "tweak");
        for _ in 0..r.range(1, 3) {
            cfg.faults.push(crate::density::Fault { at: r.below(1500), kind: *r.pick(&crate::density::FaultKind::ALL) });
        }
        FaultScenario { cfg, enumerate: false, max_positions: 0, pairs: 0, pair_seed: 0 }
    });
    ctx.finish("fault_enumeration", components_engine_a_math(), vec![
        "base runs are sampled; positions within a base run are enumerated".into(),
        "a recoverable-class fault during set_position may make it return Ok or Err (both accepted), never panic".into(),
        "MCLMC with dynamic step size may retry instead of diverging".into(),
    ], json!({}))
}

fn c18(tier: Tier, seed: u64) -> i32 {
    use crate::props_mclmc::MclmcScenario;
    let mut ctx = Ctx::new("C18", tier, seed);
    let n = ctx.n(12000, 400_000);
    let opts = SwarmOpts { presets: crate::swarm::MCLMC_PRESETS.to_vec(), allow_tune0: true, max_tune: 30, max_draws: 12, max_dim: 20, ..Default::default() };
    ctx.run_batch("swarm", "three MCLMC presets (Flow with the stub flow) x dimension 2..20 x L, subsample_frequency, step size, three trajectory kinds, switch fraction, dynamic_step_size on/off x targets (incl. funnel: natural divergences and retries); every ESH update / normalisation seen at the SimMath seam is compared with the closed form; history: step count = max(1, round(f*L/eps)), total integrated time = N*eps under retries, divergent draw leaves the position unchanged and is followed by a full refresh (momentum-draw count), integrator switch at the configured draw with a fresh normalised momentum; non-trivial = ESH updates were observed", n, |rs, _| {
        let mut cfg = gen_chain_cfg(rs, &opts);
        let mut r = Prng::sub(rs, "tweak");
        if cfg.target.dim() < 2 {
            cfg.target = crate::density::std_normal(2);
            cfg.init = vec![0.1, -0.2];
        }
        if r.chance(0.6) {
            // recoverable-class faults at seeded evaluation indices: divergence position within a draw,
            // single and nested retries under dynamic step size
            for _ in 0..r.range(1, 6) {
                let kind = *r.pick(&[crate::density::FaultKind::RecoverableErr, crate::density::FaultKind::NanLogp, crate::density::FaultKind::EnergyJump, crate::density::FaultKind::RecoverableErr, crate::density::FaultKind::NanGrad, crate::density::FaultKind::RecoverableErr]);
                let base = r.below(200);
                cfg.faults.push(crate::density::Fault { at: base, kind });
                if r.chance(0.5) {
                    // a second failure shortly after: nested retry
                    cfg.faults.push(crate::density::Fault { at: base + r.range(1, 3), kind });
                }
            }
        }
        MclmcScenario { cfg }
    });
    ctx.finish("exploration", components_engine_a_math(), vec![
        "tolerances: unit norm 1e-12, closed-form ESH 1e-9".into(),
        "ESH updates with a zero or non-finite gradient (after an injected fault) are skipped and counted".into(),
    ], json!({}))
}

fn c09(tier: Tier, seed: u64) -> i32 {
    use crate::props_sched_adapt::WindowScenario;
    let mut ctx = Ctx::new("C09", tier, seed);
    let n = ctx.n(12000, 400_000);
    let presets = vec![crate::swarm::PresetKind::DiagNuts, crate::swarm::PresetKind::LowRankNuts, crate::swarm::PresetKind::DiagMclmc, crate::swarm::PresetKind::LowRankMclmc];
    let opts = SwarmOpts { presets, allow_tune0: false, max_tune: 300, max_draws: 4, max_dim: 4, allow_hard_targets: true, ..Default::default() };
    ctx.run_batch("swarm", "Diag/LowRank x NUTS/MCLMC x num_tune 1..300 x early_window, step_size_window, early/main switch frequency, update frequency, growth factor 1..3 x histories with every mixture of good and rejected draws (divergent / stuck draws produced by the fault injector and by hard targets); after every draw the hook-H4 counters (foreground, background, window) are checked against the window invariants: switch only with a full window and room for the next one, no missed switch, foreground-background constant between switches, geometric growth, nothing touched in the final window, first transformation change re-runs the step-size search (seen at the SimMath seam), switches rebuild the transformation; non-trivial = at least one switch", n, |rs, _| {
        let mut cfg = gen_chain_cfg(rs, &opts);
        let mut r = Prng::sub(rs, "tweak");
        // keep trajectories short: the schedule is what matters
        match &mut cfg.preset {
            crate::chain::Preset::DiagNuts(s) => s.maxdepth = s.maxdepth.min(3),
            crate::chain::Preset::LowRankNuts(s) => s.maxdepth = s.maxdepth.min(3),
            _ => {}
        }
        // num_tune log-uniform so that long schedules with several growing windows occur
        let nt = r.log_uniform(3.0, 300.0) as u64;
        retune(&mut cfg, nt);
        cfg.preset.set_num_draws(2);
        cfg.n_calls = nt + 2;
        if r.chance(0.5) {
            // rejected draws: bursts of divergences
            for _ in 0..r.range(1, 12) {
                cfg.faults.push(crate::density::Fault { at: r.below(3000), kind: crate::density::FaultKind::RecoverableErr });
            }
        }
        WindowScenario { cfg }
    });
    ctx.finish("exploration", components_engine_a_math(), vec![
        "the rounding of the geometric growth is not pinned down: the next window may be floor or ceil of window*growth (at least window+1)".into(),
        "on which non-switch draws the transformation is rebuilt (mass_matrix_update_freq) is not asserted".into(),
        "that the final window uses the symmetric acceptance statistic is decided by C07's reference recursion".into(),
    ], json!({}))
}

fn c07(tier: Tier, seed: u64) -> i32 {
    use crate::props_adapt::AdaptScenario;
    let mut ctx = Ctx::new("C07", tier, seed);
    let n = ctx.n(12000, 500_000);
    let opts = SwarmOpts { presets: crate::swarm::NUTS_PRESETS.to_vec(), allow_tune0: false, max_tune: 150, max_draws: 5, max_dim: 6, ..Default::default() };
    ctx.run_batch("reference_recursion", "NUTS presets x randomised target_accept, k, t0, gamma, max_step_size (0.5..10), initial_step, jitter, dual averaging / Adam x targets x acceptance histories of every kind produced by the environment (mixed: fault injector and funnel; all-0: densities that always diverge; all-1: ExactNormal on a standard normal); the reference recursion (dual averaging with clamped iterates and count^-k weighted average / Adam) is fed the observed per-draw acceptance statistics (plain before the late phase, symmetric in it; late phase from the hook-H4 window counters) and must reproduce step_size_bar and step_size of every warmup draw to 1e-8; every step size finite, positive and <= max_step_size; non-trivial = more than 3 updates compared", n, |rs, _| {
        let mut cfg = gen_chain_cfg(rs, &opts);
        let mut r = Prng::sub(rs, "tweak");
        match r.below(6) {
            0 => {
                // all-1 acceptance: ExactNormal integrator on a standard normal
                let d = cfg.target.dim().max(1);
                cfg.target = crate::density::std_normal(d);
                cfg.init = vec![0.3; d];
                match &mut cfg.preset {
                    crate::chain::Preset::DiagNuts(s) => s.trajectory_kind = nuts_rs::KineticEnergyKind::ExactNormal,
                    crate::chain::Preset::LowRankNuts(s) => s.trajectory_kind = nuts_rs::KineticEnergyKind::ExactNormal,
                    crate::chain::Preset::FlowNuts(s) => s.trajectory_kind = nuts_rs::KineticEnergyKind::ExactNormal,
                    _ => {}
                }
            }
            1 => {
                // all-0 acceptance: every trajectory evaluation fails (recoverably) from some point on
                let from = r.range(20, 200);
                for k in 0..400 {
                    cfg.faults.push(crate::density::Fault { at: from + k, kind: crate::density::FaultKind::RecoverableErr });
                }
            }
            2 | 3 => {
                // density faults of every kind at random evaluations: each is a divergence with acceptance 0
                for _ in 0..r.range(1, 10) {
                    let kind = *r.pick(&[crate::density::FaultKind::RecoverableErr, crate::density::FaultKind::RecoverableErr, crate::density::FaultKind::NanLogp, crate::density::FaultKind::InfGrad, crate::density::FaultKind::EnergyJump, crate::density::FaultKind::PosInfLogp]);
                    cfg.faults.push(crate::density::Fault { at: r.below(1500), kind });
                }
            }
            _ => {}
        }
        AdaptScenario { prop: "C07".into(), cfg }
    });
    let n2 = ctx.n(48, 3000);
    ctx.run_batch("closed_loop", "default-like settings, num_tune 300..500, 300 sampling draws on Gaussian targets (isotropic, scaled, correlated), dual averaging and Adam: post-warmup mean acceptance within a wide band around target_accept", n2, |rs, _| {
        let mut r = Prng::sub(rs, "cl");
        let kind = *r.pick(&[crate::swarm::PresetKind::DiagNuts, crate::swarm::PresetKind::LowRankNuts]);
        let nt = r.range(300, 500);
        let o = SwarmOpts { randomise_knobs: false, ..Default::default() };
        let mut preset = crate::swarm::gen_preset(&mut r, kind, nt, 300, &o);
        let ta = *r.pick(&[0.7, 0.8, 0.9]);
        let adam = r.chance(0.3);
        match &mut preset {
            crate::chain::Preset::DiagNuts(s) => { s.adapt_options.step_size_settings.target_accept = ta; if adam { s.adapt_options.step_size_settings.adapt_options.method = nuts_rs::StepSizeAdaptMethod::Adam } }
            crate::chain::Preset::LowRankNuts(s) => { s.adapt_options.step_size_settings.target_accept = ta; if adam { s.adapt_options.step_size_settings.adapt_options.method = nuts_rs::StepSizeAdaptMethod::Adam } }
            _ => {}
        }
        let d = r.usize_in(2, 10);
        let target = match r.below(3) {
            0 => crate::density::std_normal(d),
            1 => crate::density::Target::DiagNormal { mu: vec![1.0; d], sigma: (0..d).map(|_| r.log_uniform(0.01, 100.0)).collect() },
            _ => { let eig: Vec<f64> = (0..d).map(|_| r.log_uniform(0.1, 10.0)).collect(); crate::density::dense_normal(&mut r, vec![0.0; d], &eig).0 }
        };
        let init = crate::swarm::init_point(&mut r, &target);
        let cfg = crate::chain::ChainCfg { preset, target, faults: vec![], init, chain_seed: r.next_u64(), chain_id: 0, n_calls: nt + 300, keep_evals: false, max_evals: 3_000_000, reinit_at: None, observe_math: false };
        AdaptScenario { prop: "C07cl".into(), cfg }
    });
    ctx.finish("exploration", components_engine_a(), vec![
        "the result of a step-size search is not predicted by the recursion: the reference re-synchronises on the reported value there".into(),
        "monotonicity (raising an acceptance statistic never lowers a later step size) is a property of the reference recursion: positive weights on (target - accept) in hbar, convex combination for the average; simulation ties the implementation to that recursion on all produced histories".into(),
        "closed-loop band [target-0.25, target+0.17]".into(),
    ], json!({}))
}

fn c08(tier: Tier, seed: u64) -> i32 {
    use crate::props_adapt::AdaptScenario;
    let mut ctx = Ctx::new("C08", tier, seed);
    let n = ctx.n(12000, 400_000);
    let presets = vec![crate::swarm::PresetKind::DiagNuts, crate::swarm::PresetKind::DiagNuts, crate::swarm::PresetKind::LowRankNuts, crate::swarm::PresetKind::DiagMclmc, crate::swarm::PresetKind::LowRankMclmc];
    let opts = SwarmOpts { presets, allow_tune0: false, max_tune: 80, max_draws: 4, max_dim: 10, ..Default::default() };
    ctx.run_batch("swarm", "Diag/LowRank presets with store_mass_matrix, store_transformed, store_gradient on x Gaussian targets (diagonal with condition number up to 1e12, dense), degenerate targets (flat coordinate, piecewise-linear Laplace coordinates started far in the tail => constant gradient, scales 1e-150..1e150), stuck chains and all-divergent windows (fault injector); oracles: every reported scale / eigenvalue / mean finite and positive, diagonal Gaussian recovered exactly (scales and mean to 1e-6, whitened gradient = -position) once the window holds >=4 accepted draws, a coordinate without gradient variance keeps its previous scale; non-trivial = at least one transformation update", n, |rs, _| {
        let mut cfg = gen_chain_cfg(rs, &opts);
        let mut r = Prng::sub(rs, "tweak");
        match &mut cfg.preset {
            crate::chain::Preset::DiagNuts(s) => { s.adapt_options.mass_matrix_options.store_mass_matrix = true; s.store_transformed = true; s.store_gradient = true; s.store_unconstrained = true; s.maxdepth = s.maxdepth.min(6); s.target_integration_time = None; }
            crate::chain::Preset::LowRankNuts(s) => { s.adapt_options.mass_matrix_options.store_mass_matrix = true; s.store_transformed = true; s.store_gradient = true; s.maxdepth = s.maxdepth.min(6); }
            crate::chain::Preset::DiagMclmc(s) => { s.adapt_options.mass_matrix_options.store_mass_matrix = true; s.store_transformed = true; s.store_gradient = true; }
            crate::chain::Preset::LowRankMclmc(s) => { s.adapt_options.mass_matrix_options.store_mass_matrix = true; s.store_transformed = true; s.store_gradient = true; }
            _ => {}
        }
        let d = cfg.target.dim().max(2);
        match r.below(6) {
            0 | 1 => {
                let cond = *r.pick(&[1.0f64, 1e2, 1e6, 1e12]);
                let sigma: Vec<f64> = (0..d).map(|_| r.log_uniform(1.0 / cond.sqrt(), cond.sqrt())).collect();
                let mu: Vec<f64> = (0..d).map(|_| r.uniform(-3.0, 3.0)).collect();
                cfg.init = (0..d).map(|i| mu[i] + sigma[i] * r.uniform(-1.5, 1.5)).collect();
                cfg.target = crate::density::Target::DiagNormal { mu, sigma };
            }
            2 => {
                // Laplace coordinates started far out: the gradient is constant over whole windows
                let b: Vec<f64> = (0..d - 1).map(|_| r.log_uniform(0.1, 10.0)).collect();
                cfg.init = std::iter::once(r.uniform(-1.0, 1.0)).chain(b.iter().map(|b| 1e4 * b)).collect();
                cfg.target = crate::density::Target::NormalLaplace { s: r.log_uniform(0.3, 3.0), b };
            }
            3 => {
                let sigma: Vec<f64> = (0..d).map(|_| *r.pick(&[1e-150, 1e150, 1.0, 1e-30, 1e30])).collect();
                cfg.init = (0..d).map(|i| sigma[i] * r.uniform(-1.0, 1.0)).collect();
                cfg.target = crate::density::Target::DiagNormal { mu: vec![0.0; d], sigma };
            }
            _ => {}
        }
        if r.chance(0.3) {
            for _ in 0..r.range(1, 30) {
                cfg.faults.push(crate::density::Fault { at: r.below(1500), kind: crate::density::FaultKind::RecoverableErr });
            }
        }
        AdaptScenario { prop: "C08".into(), cfg }
    });
    let n2 = ctx.n(500, 20_000);
    ctx.run_batch("lowrank_exact", "low-rank presets (NUTS and MCLMC): (a) eigval_cutoff just above 1 (every direction is kept: the covariance 'fits the rank') on correlated Gaussians, (b) default cut-off on uncorrelated Gaussians with scales 1e-3..1e3 (rank 0 fits); (dimension 2..10, eigenvalues 0.05..20 in a random orthonormal basis, mean up to 1e8 standard deviations away from the origin, seeded start), num_tune 150..400: once warmup is over, the whitened gradient must equal minus the whitened position (fisher_distance = |y + grad_y|^2 <= 1e-8 (1 + |y|^2)) on every draw", n2, |rs, i| {
        let mut r = Prng::sub(rs, "lowrank_exact");
        let d = r.usize_in(2, 10);
        let eig: Vec<f64> = (0..d).map(|_| r.log_uniform(0.05, 20.0)).collect();
        // the mean is of the order of the spread, or far away from the origin relative to it (up to 1e8 sd)
        let off = if r.chance(0.5) { 10f64.powf(r.uniform(0.0, 8.0)) } else { 1.0 };
        let mu: Vec<f64> = (0..d).map(|_| off * r.uniform(-3.0, 3.0)).collect();
        // correlated Gaussian with every direction kept, or an uncorrelated one with the DEFAULT cut-off (after
        // the diagonal rescaling its covariance is the identity: nothing to keep, whitening exact all the same)
        let diag_case = i % 2 == 1;
        let (target, cov) = if diag_case {
            let sigma: Vec<f64> = (0..d).map(|_| r.log_uniform(1e-3, 1e3)).collect();
            let mu: Vec<f64> = (0..d).map(|k| mu[k] * sigma[k]).collect();
            let mut cov = vec![0.0; d * d];
            for k in 0..d {
                cov[k * d + k] = sigma[k] * sigma[k];
            }
            (crate::density::Target::DiagNormal { mu, sigma }, cov)
        } else {
            crate::density::dense_normal(&mut r, mu.clone(), &eig)
        };
        let mu: Vec<f64> = match &target { crate::density::Target::DiagNormal { mu, .. } => mu.clone(), _ => mu };
        let nt = r.range(150, 400);
        let kind = if i % 4 == 3 { crate::swarm::PresetKind::LowRankMclmc } else { crate::swarm::PresetKind::LowRankNuts };
        let o = SwarmOpts { randomise_knobs: false, ..Default::default() };
        let mut preset = crate::swarm::gen_preset(&mut r, kind, nt, 10, &o);
        match &mut preset {
            crate::chain::Preset::LowRankNuts(s) => { if !diag_case { s.adapt_options.mass_matrix_options.eigval_cutoff = 1.00001; } s.store_transformed = true; }
            crate::chain::Preset::LowRankMclmc(s) => { if !diag_case { s.adapt_options.mass_matrix_options.eigval_cutoff = 1.00001; } s.store_transformed = true; }
            _ => {}
        }
        let init: Vec<f64> = (0..d).map(|i| mu[i] + cov[i * d + i].sqrt() * r.uniform(-1.5, 1.5)).collect();
        let cfg = crate::chain::ChainCfg { preset, target, faults: vec![], init, chain_seed: r.next_u64(), chain_id: 0, n_calls: nt + 10, keep_evals: false, max_evals: 5_000_000, reinit_at: None, observe_math: false };
        AdaptScenario { prop: "C08lr".into(), cfg }
    });
    ctx.finish("exploration", components_engine_a(), vec![
        "windows containing NaN/inf draws or gradients are not reachable through a chain (such states are never accepted) and are not fed to the estimators directly (that would be input generation, DESIGN.md §5 C08)".into(),
        "low-rank exactness is asserted with eigval_cutoff ~ 1 (all directions kept), as the repository's own integration test does; with the default cut-off 2 directions whose rescaled eigenvalue lies in (1/2, 2) are deliberately left unwhitened, so no exactness is demanded there".into(),
    ], json!({}))
}

fn c04(tier: Tier, seed: u64) -> i32 {
    use crate::props_posterior::PosteriorScenario;
    let mut ctx = Ctx::new("C04", tier, seed);
    let n = ctx.n(24, 600);
    let quick = tier == Tier::Quick;
    ctx.run_batch("cells", "cell = NUTS preset (Diag / LowRank) x kinetic energy (Euclidean / ExactNormal) x step-size method (dual averaging / Adam), otherwise DEFAULT settings, x target with known moments (isotropic, badly scaled up to 1e6, correlated Gaussians; Student-t with integer df; skewed log-gamma), dimension 2..20 (thorough: ..100); 32 independently seeded chains per cell, default warmup, 4000 post-warmup draws each; per coordinate the mean, variance and 5/25/50/75/95% quantile coverage averaged over chains are compared with the truth (exact for Gaussians, 2e6 i.i.d. reference draws otherwise) by a t statistic with the BETWEEN-CHAIN standard error at a two-sided level of 1e-7; no post-warmup divergence on Gaussians; the trajectory-start momentum seen at the SimMath seam: KS distance to N(0,1), lag-1 autocorrelation, correlation with the previous draw", n, |rs, i| {
        let mut r = Prng::sub(rs, "cell");
        // (the Flow preset is not part of C04's statement: its quality is that of the user's flow)
        let kind = match i % 6 { 0 | 1 | 2 => crate::swarm::PresetKind::DiagNuts, _ => crate::swarm::PresetKind::LowRankNuts };
        let o = SwarmOpts { randomise_knobs: false, ..Default::default() };
        let d = if quick { r.usize_in(2, 12) } else { *r.pick(&[2usize, 5, 10, 20, 50, 100]) };
        let draws = if quick { 4000 } else { 6000 };
        // default settings; only the documented knobs of the property's quantifier vary
        let defaults_tune = match kind { crate::swarm::PresetKind::DiagNuts => 400, crate::swarm::PresetKind::LowRankNuts => 800, _ => 600 };
        let mut preset = crate::swarm::gen_preset(&mut r, kind, defaults_tune, draws, &o);
        let exact = (i / 6) % 2 == 1;
        let adam = r.chance(0.25);
        macro_rules! setk { ($s:expr) => {{
            if exact { $s.trajectory_kind = nuts_rs::KineticEnergyKind::ExactNormal; }
            if adam { $s.adapt_options.step_size_settings.adapt_options.method = nuts_rs::StepSizeAdaptMethod::Adam; }
        }}; }
        match &mut preset {
            crate::chain::Preset::DiagNuts(s) => setk!(s),
            crate::chain::Preset::LowRankNuts(s) => setk!(s),
            crate::chain::Preset::FlowNuts(s) => setk!(s),
            _ => {}
        }
        let target = match (i / 2) % 6 {
            0 => crate::density::std_normal(d),
            1 => crate::density::Target::DiagNormal { mu: (0..d).map(|_| r.uniform(-3.0, 3.0)).collect(), sigma: (0..d).map(|_| r.log_uniform(1e-3, 1e3)).collect() },
            2 => { let eig: Vec<f64> = (0..d).map(|_| r.log_uniform(0.05, 20.0)).collect(); let mu = (0..d).map(|_| r.uniform(-2.0, 2.0)).collect(); crate::density::dense_normal(&mut r, mu, &eig).0 }
            3 => crate::density::Target::StudentT { nu: *r.pick(&[5.0, 8.0, 12.0]), mu: (0..d).map(|_| r.uniform(-1.0, 1.0)).collect(), scale: (0..d).map(|_| r.log_uniform(0.3, 3.0)).collect() },
            4 => crate::density::Target::LogGamma { a: (0..d).map(|_| r.range(2, 6) as f64).collect() },
            _ => crate::density::Target::StudentT { nu: 5.0, mu: vec![0.0; d], scale: vec![1.0; d] },
        };
        PosteriorScenario { preset, target, n_chains: 32, seed: r.next_u64(), n_truth: 2_000_000 }
    });
    let n2 = ctx.n(64, 300);
    ctx.run_batch("stationarity", "invariance of one NUTS transition (direct drive, fixed transformation and step size): N independent particles start from exact draws of the target and make k transitions; their distribution (every coordinate and the log density, 5 quantile levels) must still be the target's, compared with an independent reference sample by exact binomial z statistics (critical 6); valid whatever the mixing speed", n2, |rs, i| {
        gen_stationary(rs, "C04", i, quick)
    });
    ctx.finish("exploration", components_engine_a_math(), vec![
        "no schedule and no fault in this property: the family contributes seeded repeatability and the momentum seam (weak fit, DESIGN.md §5 C04)".into(),
        "thresholds at a two-sided level of 1e-7 per statistic with between-chain standard errors (valid whatever the autocorrelation); a behaviour-preserving change that reshuffles the random stream cannot plausibly trip it; small biases below ~1 standard error of 32 chains x 4000 draws are not detectable".into(),
    ], json!({}))
}

/// Cells of the stationarity oracle: target with a direct sampler x transformation (identity, matched,
/// mismatched, low-rank) x kinetic energy x step size (small .. near the stability limit) x depth options.
pub fn gen_stationary(rs: u64, prop: &str, i: u64, quick: bool) -> crate::props_stationary::StationaryScenario {
    use crate::props_c01::TransformSpec;
    let mut r = Prng::sub(rs, "stationary");
    let d = r.usize_in(1, 4);
    let target = match i % 6 {
        0 => crate::density::std_normal(d),
        1 => crate::density::Target::StudentT { nu: *r.pick(&[3.0, 5.0, 8.0]), mu: (0..d).map(|_| r.uniform(-1.0, 1.0)).collect(), scale: (0..d).map(|_| r.log_uniform(0.5, 2.0)).collect() },
        2 => { let eig: Vec<f64> = (0..d).map(|_| r.log_uniform(0.2, 5.0)).collect(); let mu = (0..d).map(|_| r.uniform(-1.0, 1.0)).collect(); crate::density::dense_normal(&mut r, mu, &eig).0 }
        3 => crate::density::Target::LogGamma { a: (0..d).map(|_| r.range(1, 5) as f64).collect() },
        4 => crate::density::Target::DiagNormal { mu: (0..d).map(|_| r.uniform(-2.0, 2.0)).collect(), sigma: (0..d).map(|_| r.log_uniform(0.3, 3.0)).collect() },
        _ => crate::density::Target::Banana { dim: d.max(2), b: r.uniform(0.1, 0.5) },
    };
    let d = target.dim();
    // transformation: identity, roughly matched scales, or a seeded (mismatched) diagonal / low-rank one
    let transform = match r.below(4) {
        0 => TransformSpec::Diag { stds: vec![1.0; d], mean: vec![0.0; d] },
        1 => TransformSpec::Diag { stds: (0..d).map(|_| r.log_uniform(0.5, 2.0)).collect(), mean: (0..d).map(|_| r.uniform(-0.5, 0.5)).collect() },
        _ => {
            let mut t = crate::props_c01::gen_transform(&mut r, d, true);
            // keep the mismatch moderate (the kernel stays valid for any transformation, but trajectories get long)
            match &mut t {
                TransformSpec::Diag { stds, .. } => stds.iter_mut().for_each(|s| *s = s.clamp(0.3, 3.0)),
                TransformSpec::LowRank { stds, vals, .. } => { stds.iter_mut().for_each(|s| *s = s.clamp(0.3, 3.0)); vals.iter_mut().for_each(|v| *v = v.clamp(0.3, 3.0)); }
            }
            t
        }
    };
    let exact_normal = (i / 6) % 2 == 1;
    let step_size = *r.pick(&[0.1, 0.25, 0.5, 0.8, 1.2]);
    let maxdepth = *r.pick(&[1u64, 2, 3, 5, 6]);
    let n_particles = if quick { 20_000 } else { 60_000 };
    crate::props_stationary::StationaryScenario {
        prop: prop.to_string(), target, transform, exact_normal, step_size, maxdepth,
        // default tree options only (C01's quantifier): extra_doublings > 0 extends a finished tree without
        // any check, which is not reversible - the oracle shows it (z = 8 after one transition)
        mindepth: 0,
        extra_doublings: 0,
        n_particles, k: *r.pick(&[1u64, 3, 6]), seed: r.next_u64(),
        equal_weight_selection: false,
    }
}

pub fn components_direct_drive() -> J {
    json!({
        "real_code": ["nuts::draw (tree building, merges, U-turn checks, selection), TransformedHamiltonian::{init_state, initialize_trajectory, leapfrog, is_turning}, DiagMassMatrix / LowRankMassMatrix transformation maps, CpuMath kernels — called through the hook-H3 direct-drive entry points with an explicit transformation"],
        "stubs": ["density (harness targets with exact gradients)"],
        "seams": ["every random decision is scripted: doubling directions and selection thresholds by a scripted random number generator handed to nuts::draw, the momentum by the delegating Math wrapper's array_gaussian", "trajectory tap (hook H3): every state the integrator visits, in generation order"],
    })
}

fn c01(tier: Tier, seed: u64) -> i32 {
    use crate::props_c01::gen_nuts_scenario;
    let mut ctx = Ctx::new("C01", tier, seed);
    let n = ctx.n(8000, 400_000);
    ctx.run_batch("scripted_transitions", "scenario = target (Gaussians, Student-t, banana; dimension 1..8) x explicit diagonal or low-rank transformation (rank 0..d, random orthonormal eigenvectors) x Euclidean / ExactNormal x step size x maxdepth 1..6 x start x scripted momentum x scripted raw direction draws (incl. boundary values) x scripted selection thresholds. R1: from every state of the final block the real nuts::draw is re-run with the mirrored doubling choices and must visit the same states with the same depth and stopping reason; R2: with the same scripted thresholds the implementation selects the index the reference selection law (min(1, w_new/w_old) for the tree holding the start, w_new/(w_old+w_new) in sub-trees) selects; the sequence of random draws is the predicted one; R3: direction = sign bit of the raw uniform u32; tree building equals RefNuts (Appendix A). Divergent trajectories are outside the quantifier and skipped; near-ties skipped and counted. Non-trivial = depth >= 2", n, |rs, _| gen_nuts_scenario(rs));
    let n2 = ctx.n(96, 400);
    let quick = tier == Tier::Quick;
    ctx.run_batch("stationarity", "invariance, statistically: N independent particles start from exact i.i.d. draws of the target (Gaussians incl. correlated, Student-t, log-gamma, banana; dimension 1..4) and make 1/3/6 transitions of the real nuts::draw with a fixed transformation (identity, mismatched diagonal, low-rank), step size 0.1..1.2, maxdepth 1..6, default tree options; the particles must still be distributed as the target: per coordinate and for the log density the fraction below the 5/25/50/75/95% quantiles of an independent reference sample is binomial (z statistic, critical 6). Holds for any reversible kernel whatever its mixing speed; a biased selection, direction or acceptance rule shows as a drift", n2, |rs, i| gen_stationary(rs, "C01", i, quick));
    let n3 = ctx.n(12, 120);
    ctx.run_batch("stationarity_equal_weights", "energy-conserving orbits: ExactNormal kinetic energy on a standard normal with the identity transformation (dimension 1..4, step size 0.1..0.5, maxdepth 2..5): every state of a trajectory has the same weight up to rounding - the case in which the scripted batch must skip the selection law as a weight tie. Statistically, over 20000 (thorough 60000) particles x 3 transitions: in complete trees of depth >= 2 the draw comes from the last accepted doubling (acceptance min(1, w_new/w_old) = 1) and lies in the newer half of that sub-tree with probability 1/2 (uniform multinomial selection; z statistic, critical 6), besides the invariance statistics", n3, |rs, i| {
        let mut sc = gen_stationary(rs, "C01", i, quick);
        let mut r = Prng::sub(rs, "equal_weights");
        let d = r.usize_in(1, 4);
        sc.target = crate::density::std_normal(d);
        sc.transform = crate::props_c01::TransformSpec::Diag { stds: vec![1.0; d], mean: vec![0.0; d] };
        sc.exact_normal = true;
        sc.step_size = *r.pick(&[0.1, 0.2, 0.3, 0.5]);
        sc.maxdepth = *r.pick(&[2u64, 3, 4, 5]);
        sc.k = 3;
        sc.equal_weight_selection = true;
        sc
    });
    ctx.finish("exploration", components_direct_drive(), vec![
        "given R1-R3 the implementation's kernel is the reference kernel on the explored scenarios; detailed balance of the reference kernel is the algebra of DESIGN.md Appendix A".into(),
        "tolerance for 'same states' 1e-7 x trajectory length (forward and backward integration are not bitwise inverse)".into(),
    ], json!({}))
}

fn c02(tier: Tier, seed: u64) -> i32 {
    use crate::props_c01::gen_leapfrog_scenario;
    let mut ctx = Ctx::new("C02", tier, seed);
    let n = ctx.n(20000, 600_000);
    ctx.run_batch("leapfrog_sequences", "sequences of 2..8 single leapfrog steps (both signs) of the real Hamiltonian::leapfrog from a scripted momentum, for explicit diagonal / low-rank transformations (dimension 1..64, rank 0..d), Euclidean and ExactNormal kinetic energy; every visited state (trajectory tap) is compared with a dense-matrix reference: x = F(y) + mu (inverse consistent with forward map), gradient pull-back F^T grad, documented log-determinant, energy = 1/2|v|^2 - logp - logdet, each step = textbook leapfrog in the original space for M^-1 = F F^T (ExactNormal: residual kick / rotation / kick), forward+backward returns the start, ExactNormal conserves the energy on a standard normal", n, |rs, _| gen_leapfrog_scenario(rs));
    let n2 = ctx.n(6000, 300_000);
    let opts = SwarmOpts { allow_tune0: true, max_tune: 40, max_draws: 10, max_dim: 6, ..Default::default() };
    ctx.run_batch("real_runs", "real chains of all six presets (adaptation on, natural and injected divergences, recoverable errors, energy jumps; MCLMC with dynamic step-size retries and a momentum decoherence length of 1e300 with the subsample frequency scaled to keep the trajectory length, i.e. a partial refresh below rounding): every state the integrator produced inside set_position and every draw (trajectory tap) must be the half-kick / drift / half-kick image - with the ONE step size reported for that leapfrog - of an earlier state of its trajectory (Euclidean, ExactNormal and closed-form ESH formulas in whitened coordinates), and all states of a trajectory, the start state included, must be related to their whitened coordinates by one affine map ((x_k - x_0).g_x,m = (y_k - y_0).g_y,m) with one log-determinant; non-trivial = a draw with at least two leapfrogs", n2, |rs, _| {
        let mut cfg = gen_chain_cfg(rs, &opts);
        let mut r = Prng::sub(rs, "tweak");
        match &mut cfg.preset {
            crate::chain::Preset::DiagMclmc(s) => { let f = s.subsample_frequency * s.momentum_decoherence_length; s.momentum_decoherence_length = 1e300; s.subsample_frequency = f * 1e-300; if r.chance(0.7) { s.dynamic_step_size = true; } }
            crate::chain::Preset::LowRankMclmc(s) => { let f = s.subsample_frequency * s.momentum_decoherence_length; s.momentum_decoherence_length = 1e300; s.subsample_frequency = f * 1e-300; if r.chance(0.7) { s.dynamic_step_size = true; } }
            crate::chain::Preset::FlowMclmc(s) => { let f = s.subsample_frequency * s.momentum_decoherence_length; s.momentum_decoherence_length = 1e300; s.subsample_frequency = f * 1e-300; if r.chance(0.7) { s.dynamic_step_size = true; } }
            _ => {}
        }
        if r.chance(0.6) {
            for _ in 0..r.range(1, 6) {
                let kind = *r.pick(&[crate::density::FaultKind::RecoverableErr, crate::density::FaultKind::NanLogp, crate::density::FaultKind::EnergyJump, crate::density::FaultKind::InfGrad]);
                cfg.faults.push(crate::density::Fault { at: r.below(400), kind });
            }
        }
        crate::props_leapfrog_real::RealLeapfrogScenario { cfg }
    });
    ctx.finish("exploration", components_direct_drive(), vec![
        "weak fit for the family (pure function of its inputs except the re-derivation of whitened coordinates after a transformation change, which C03's next-trajectory oracle covers in adaptive chains); the simulator contributes the scripted momentum and the tap".into(),
        "volume preservation and the O(eps^2) order follow from equality with the textbook map and are not measured".into(),
    ], json!({}))
}
