//! `SimMath<F>`: a `Math` implementation that delegates every method to the real `CpuMath<F>` and
//! records what passes through the seam: every momentum / noise draw (`array_gaussian`), every ESH
//! momentum update and every normalisation, each stamped with the density's evaluation counter.

use std::collections::HashMap;
use std::sync::{Arc, Mutex};

use nuts_rs::{CpuLogpFunc, CpuMath, HasDims, Math, Storable, Value};

use crate::density::SharedLog;

#[derive(Clone, Debug)]
pub enum MathEvent {
    Gaussian { at_eval: u64, values: Vec<f64> },
    Esh { at_eval: u64, grad: Vec<f64>, mom_in: Vec<f64>, step: f64, mom_out: Vec<f64>, ret: f64 },
    Normalize { at_eval: u64, input: Vec<f64>, output: Vec<f64> },
}

impl MathEvent {
    pub fn at_eval(&self) -> u64 {
        match self {
            MathEvent::Gaussian { at_eval, .. } | MathEvent::Esh { at_eval, .. } | MathEvent::Normalize { at_eval, .. } => *at_eval,
        }
    }
}

pub type MathLog = Arc<Mutex<Vec<MathEvent>>>;

pub struct SimMath<F: CpuLogpFunc> {
    pub inner: CpuMath<F>,
    pub log: SharedLog,
    pub events: MathLog,
    /// scripted momentum: when non-empty, `array_gaussian` delivers the next entry instead of drawing
    /// from the random number generator (which is then not advanced)
    pub scripted_gaussian: Arc<Mutex<std::collections::VecDeque<Vec<f64>>>>,
}

impl<F: CpuLogpFunc> SimMath<F> {
    pub fn new(inner: CpuMath<F>, log: SharedLog, events: MathLog) -> Self {
        SimMath { inner, log, events, scripted_gaussian: Default::default() }
    }
    fn now(&self) -> u64 {
        self.log.lock().unwrap().n_evals
    }
}

impl<F: CpuLogpFunc> HasDims for SimMath<F> {
    fn dim_sizes(&self) -> HashMap<String, u64> {
        self.inner.dim_sizes()
    }
    fn coords(&self) -> HashMap<String, Value> {
        self.inner.coords()
    }
}

pub struct SimExp<F: CpuLogpFunc>(pub <CpuMath<F> as Math>::ExpandedVector);

impl<F: CpuLogpFunc> Storable<SimMath<F>> for SimExp<F> {
    fn names(parent: &SimMath<F>) -> Vec<&str> {
        <<CpuMath<F> as Math>::ExpandedVector as Storable<CpuMath<F>>>::names(&parent.inner)
    }
    fn item_type(parent: &SimMath<F>, item: &str) -> nuts_rs::ItemType {
        <<CpuMath<F> as Math>::ExpandedVector as Storable<CpuMath<F>>>::item_type(&parent.inner, item)
    }
    fn dims<'a>(parent: &'a SimMath<F>, item: &str) -> Vec<&'a str> {
        <<CpuMath<F> as Math>::ExpandedVector as Storable<CpuMath<F>>>::dims(&parent.inner, item)
    }
    fn get_all<'a>(&'a mut self, parent: &'a SimMath<F>) -> Vec<(&'a str, Option<Value>)> {
        self.0.get_all(&parent.inner)
    }
}

type V<F> = <CpuMath<F> as Math>::Vector;
type EV<F> = <CpuMath<F> as Math>::EigVectors;
type EL<F> = <CpuMath<F> as Math>::EigValues;

impl<F: CpuLogpFunc> Math for SimMath<F>
where
    <CpuMath<F> as Math>::ExpandedVector: Send + Sync,
{
    type Vector = V<F>;
    type EigVectors = EV<F>;
    type EigValues = EL<F>;
    type LogpErr = <CpuMath<F> as Math>::LogpErr;
    type Err = <CpuMath<F> as Math>::Err;
    type FlowParameters = <CpuMath<F> as Math>::FlowParameters;
    type ExpandedVector = SimExp<F>;

    fn new_array(&mut self) -> Self::Vector {
        self.inner.new_array()
    }
    fn new_eig_vectors<'a>(&'a mut self, vals: impl ExactSizeIterator<Item = &'a [f64]>) -> Self::EigVectors {
        self.inner.new_eig_vectors(vals)
    }
    fn new_eig_values(&mut self, vals: &[f64]) -> Self::EigValues {
        self.inner.new_eig_values(vals)
    }
    fn logp_array(&mut self, position: &Self::Vector, gradient: &mut Self::Vector) -> Result<f64, Self::LogpErr> {
        self.inner.logp_array(position, gradient)
    }
    fn logp(&mut self, position: &[f64], gradient: &mut [f64]) -> Result<f64, Self::LogpErr> {
        self.inner.logp(position, gradient)
    }
    fn init_position<R: rand::Rng + ?Sized>(&mut self, rng: &mut R, position: &mut Self::Vector, gradient: &mut Self::Vector) -> Result<f64, Self::LogpErr> {
        self.inner.init_position(rng, position, gradient)
    }
    fn expand_vector<R: rand::Rng + ?Sized>(&mut self, rng: &mut R, array: &Self::Vector) -> Result<Self::ExpandedVector, Self::Err> {
        self.inner.expand_vector(rng, array).map(SimExp)
    }
    fn dim(&self) -> usize {
        self.inner.dim()
    }
    fn vector_coord(&self) -> Option<Value> {
        self.inner.vector_coord()
    }
    fn scalar_prods3(&mut self, positive1: &Self::Vector, negative1: &Self::Vector, positive2: &Self::Vector, x: &Self::Vector, y: &Self::Vector) -> (f64, f64) {
        self.inner.scalar_prods3(positive1, negative1, positive2, x, y)
    }
    fn scalar_prods2(&mut self, positive1: &Self::Vector, positive2: &Self::Vector, x: &Self::Vector, y: &Self::Vector) -> (f64, f64) {
        self.inner.scalar_prods2(positive1, positive2, x, y)
    }
    fn sq_norm_sum(&mut self, x: &Self::Vector, y: &Self::Vector) -> f64 {
        self.inner.sq_norm_sum(x, y)
    }
    fn read_from_slice(&mut self, dest: &mut Self::Vector, source: &[f64]) {
        self.inner.read_from_slice(dest, source)
    }
    fn write_to_slice(&mut self, source: &Self::Vector, dest: &mut [f64]) {
        self.inner.write_to_slice(source, dest)
    }
    fn eigs_as_array(&mut self, source: &Self::EigValues) -> Box<[f64]> {
        self.inner.eigs_as_array(source)
    }
    fn copy_into(&mut self, array: &Self::Vector, dest: &mut Self::Vector) {
        self.inner.copy_into(array, dest)
    }
    fn axpy_out(&mut self, x: &Self::Vector, y: &Self::Vector, a: f64, out: &mut Self::Vector) {
        self.inner.axpy_out(x, y, a, out)
    }
    fn axpy(&mut self, x: &Self::Vector, y: &mut Self::Vector, a: f64) {
        self.inner.axpy(x, y, a)
    }
    fn array_sum_ln(&mut self, array: &Self::Vector) -> f64 {
        self.inner.array_sum_ln(array)
    }
    fn fill_array(&mut self, array: &mut Self::Vector, val: f64) {
        self.inner.fill_array(array, val)
    }
    fn array_all_finite(&mut self, array: &Self::Vector) -> bool {
        self.inner.array_all_finite(array)
    }
    fn array_all_finite_and_nonzero(&mut self, array: &Self::Vector) -> bool {
        self.inner.array_all_finite_and_nonzero(array)
    }
    fn array_mult(&mut self, array1: &Self::Vector, array2: &Self::Vector, dest: &mut Self::Vector) {
        self.inner.array_mult(array1, array2, dest)
    }
    fn array_mult_inplace(&mut self, array1: &mut Self::Vector, array2: &Self::Vector) {
        self.inner.array_mult_inplace(array1, array2)
    }
    fn array_recip(&mut self, array: &Self::Vector, dest: &mut Self::Vector) {
        self.inner.array_recip(array, dest)
    }
    fn apply_lowrank_transform(&mut self, vecs: &Self::EigVectors, vals: &Self::EigValues, rhs: &Self::Vector, dest: &mut Self::Vector) {
        self.inner.apply_lowrank_transform(vecs, vals, rhs, dest)
    }
    fn apply_lowrank_transform_inplace(&mut self, vecs: &Self::EigVectors, vals: &Self::EigValues, rhs_and_dest: &mut Self::Vector) {
        self.inner.apply_lowrank_transform_inplace(vecs, vals, rhs_and_dest)
    }
    fn array_mult_eigs(&mut self, stds: &Self::Vector, rhs: &Self::Vector, dest: &mut Self::Vector, vecs: &Self::EigVectors, vals: &Self::EigValues) {
        self.inner.array_mult_eigs(stds, rhs, dest, vecs, vals)
    }
    fn std_norm_flow(&mut self, pos: &Self::Vector, pos_out: &mut Self::Vector, vel: &mut Self::Vector, epsilon: f64) {
        self.inner.std_norm_flow(pos, pos_out, vel, epsilon)
    }
    fn std_norm_grad_flow(&mut self, pos: &Self::Vector, grad: &Self::Vector, vel: &Self::Vector, vel_out: &mut Self::Vector, epsilon: f64) {
        self.inner.std_norm_grad_flow(pos, grad, vel, vel_out, epsilon)
    }
    fn std_norm_grad_flow_inplace(&mut self, pos: &Self::Vector, grad: &Self::Vector, vel: &mut Self::Vector, epsilon: f64) {
        self.inner.std_norm_grad_flow_inplace(pos, grad, vel, epsilon)
    }
    fn array_normalize(&mut self, v: &mut Self::Vector) {
        let input = self.inner.box_array(v).to_vec();
        self.inner.array_normalize(v);
        let output = self.inner.box_array(v).to_vec();
        let at_eval = self.now();
        self.events.lock().unwrap().push(MathEvent::Normalize { at_eval, input, output });
    }
    fn esh_momentum_update(&mut self, grad: &Self::Vector, mom: &mut Self::Vector, step: f64) -> f64 {
        let g = self.inner.box_array(grad).to_vec();
        let mom_in = self.inner.box_array(mom).to_vec();
        let ret = self.inner.esh_momentum_update(grad, mom, step);
        let mom_out = self.inner.box_array(mom).to_vec();
        let at_eval = self.now();
        self.events.lock().unwrap().push(MathEvent::Esh { at_eval, grad: g, mom_in, step, mom_out, ret });
        ret
    }
    fn array_vector_dot(&mut self, array1: &Self::Vector, array2: &Self::Vector) -> f64 {
        self.inner.array_vector_dot(array1, array2)
    }
    fn array_gaussian<R: rand::Rng + ?Sized>(&mut self, rng: &mut R, dest: &mut Self::Vector, stds: &Self::Vector) {
        let scripted = self.scripted_gaussian.lock().unwrap().pop_front();
        match scripted {
            Some(v) => self.inner.read_from_slice(dest, &v),
            None => self.inner.array_gaussian(rng, dest, stds),
        }
        let values = self.inner.box_array(dest).to_vec();
        let at_eval = self.now();
        self.events.lock().unwrap().push(MathEvent::Gaussian { at_eval, values });
    }
    fn array_gaussian_eigs<R: rand::Rng + ?Sized>(&mut self, rng: &mut R, dest: &mut Self::Vector, scale: &Self::Vector, vals: &Self::EigValues, vecs: &Self::EigVectors) {
        self.inner.array_gaussian_eigs(rng, dest, scale, vals, vecs)
    }
    fn array_update_variance(&mut self, mean: &mut Self::Vector, variance: &mut Self::Vector, value: &Self::Vector, diff_scale: f64) {
        self.inner.array_update_variance(mean, variance, value, diff_scale)
    }
    fn array_update_var_inv_std_draw(&mut self, inv_std: &mut Self::Vector, std: &mut Self::Vector, draw_var: &Self::Vector, scale: f64, fill_invalid: Option<f64>, clamp: (f64, f64)) {
        self.inner.array_update_var_inv_std_draw(inv_std, std, draw_var, scale, fill_invalid, clamp)
    }
    fn array_update_var_inv_std_draw_grad(&mut self, inv_std: &mut Self::Vector, std: &mut Self::Vector, draw_var: &Self::Vector, grad_var: &Self::Vector, fill_invalid: Option<f64>, clamp: (f64, f64)) {
        self.inner.array_update_var_inv_std_draw_grad(inv_std, std, draw_var, grad_var, fill_invalid, clamp)
    }
    fn array_update_var_inv_std_grad(&mut self, inv_std: &mut Self::Vector, std: &mut Self::Vector, gradient: &Self::Vector, fill_invalid: f64, clamp: (f64, f64)) {
        self.inner.array_update_var_inv_std_grad(inv_std, std, gradient, fill_invalid, clamp)
    }
    fn inv_transform_normalize(&mut self, params: &Self::FlowParameters, untransformed_position: &Self::Vector, untransofrmed_gradient: &Self::Vector, transformed_position: &mut Self::Vector, transformed_gradient: &mut Self::Vector) -> Result<f64, Self::LogpErr> {
        self.inner.inv_transform_normalize(params, untransformed_position, untransofrmed_gradient, transformed_position, transformed_gradient)
    }
    fn init_from_untransformed_position(&mut self, params: &Self::FlowParameters, untransformed_position: &Self::Vector, untransformed_gradient: &mut Self::Vector, transformed_position: &mut Self::Vector, transformed_gradient: &mut Self::Vector) -> Result<(f64, f64), Self::LogpErr> {
        self.inner.init_from_untransformed_position(params, untransformed_position, untransformed_gradient, transformed_position, transformed_gradient)
    }
    fn init_from_transformed_position(&mut self, params: &Self::FlowParameters, untransformed_position: &mut Self::Vector, untransformed_gradient: &mut Self::Vector, transformed_position: &Self::Vector, transformed_gradient: &mut Self::Vector) -> Result<(f64, f64), Self::LogpErr> {
        self.inner.init_from_transformed_position(params, untransformed_position, untransformed_gradient, transformed_position, transformed_gradient)
    }
    fn update_transformation<'a, R: rand::Rng + ?Sized>(
        &'a mut self,
        rng: &mut R,
        untransformed_positions: impl ExactSizeIterator<Item = &'a Self::Vector>,
        untransformed_gradients: impl ExactSizeIterator<Item = &'a Self::Vector>,
        untransformed_logps: impl ExactSizeIterator<Item = &'a f64>,
        params: &'a mut Self::FlowParameters,
    ) -> Result<(), Self::LogpErr> {
        self.inner.update_transformation(rng, untransformed_positions, untransformed_gradients, untransformed_logps, params)
    }
    fn new_transformation<R: rand::Rng + ?Sized>(&mut self, rng: &mut R, dim: usize, chain: u64) -> Result<Self::FlowParameters, Self::LogpErr> {
        self.inner.new_transformation(rng, dim, chain)
    }
    fn init_transformation<R: rand::Rng + ?Sized>(&mut self, rng: &mut R, untransformed_position: &Self::Vector, untransfogmed_gradient: &Self::Vector, chain: u64) -> Result<Self::FlowParameters, Self::LogpErr> {
        self.inner.init_transformation(rng, untransformed_position, untransfogmed_gradient, chain)
    }
    fn transformation_id(&self, params: &Self::FlowParameters) -> Result<i64, Self::LogpErr> {
        self.inner.transformation_id(params)
    }
}
