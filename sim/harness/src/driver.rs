//! Generic seeded-search driver: runs scenarios in parallel (result independent of worker count),
//! minimises violations, matches them against the committed known-findings file, writes replay files
//! and the evidence file.

use std::collections::{BTreeMap, BTreeSet};
use std::sync::Mutex;
use std::sync::atomic::{AtomicBool, AtomicU64, Ordering};
use std::time::Instant;

use serde::de::DeserializeOwned;
use serde::{Deserialize, Serialize};
use serde_json::{Value as J, json};

use crate::prng;

#[derive(Clone, Debug, Serialize, Deserialize)]
pub struct Violation {
    /// Stable identification of *what* failed: violation class + call site + input class. Known findings
    /// are matched on this string (prefix match), so it must not contain run-specific numbers.
    pub key: String,
    /// human readable details of this instance
    pub detail: String,
    /// optional machine-readable hint for the minimiser (e.g. which enumerated fault failed)
    #[serde(default)]
    pub hint: Option<J>,
}

#[derive(Clone, Debug, Default)]
pub struct RunOutcome {
    pub violations: Vec<Violation>,
    pub digest: u64,
    /// non-trivial by the check's stated rule
    pub nontrivial: bool,
    /// rare-condition probes and fault counters: name -> count
    pub probes: BTreeMap<String, u64>,
    pub sim_draws: u64,
    pub sim_evals: u64,
    pub sim_time_ns: u64,
    /// optional digest of the interleaving (engine B)
    pub interleaving: Option<u64>,
}

impl RunOutcome {
    pub fn probe(&mut self, name: &str, n: u64) {
        *self.probes.entry(name.to_string()).or_insert(0) += n;
    }
    pub fn merge(&mut self, o: RunOutcome) {
        self.violations.extend(o.violations);
        self.nontrivial |= o.nontrivial;
        for (k, v) in o.probes {
            *self.probes.entry(k).or_insert(0) += v;
        }
        self.sim_draws += o.sim_draws;
        self.sim_evals += o.sim_evals;
        self.sim_time_ns += o.sim_time_ns;
        if let Some(i) = o.interleaving {
            self.interleaving = Some(self.interleaving.unwrap_or(0) ^ i);
        }
    }
    pub fn violate(&mut self, key: impl Into<String>, detail: impl Into<String>) {
        self.violations.push(Violation {
            key: key.into(),
            detail: detail.into(),
            hint: None,
        });
    }
}

pub trait Scenario: Serialize + DeserializeOwned + Clone + Send + Sync + 'static {
    /// A run is a pure function of `self` (and of /repo's code).
    fn run(&self) -> RunOutcome;
    /// Simpler candidates, most aggressive first.
    fn shrink(&self) -> Vec<Self> {
        vec![]
    }
    /// Candidates given the hint attached to the violation being minimised.
    fn shrink_with_hint(&self, _hint: &Option<J>) -> Vec<Self> {
        self.shrink()
    }
    /// short description for the evidence samples
    fn describe(&self) -> J {
        serde_json::to_value(self).unwrap_or(J::Null)
    }
}

#[derive(Clone, Copy, Debug, PartialEq, Eq)]
pub enum Tier {
    Quick,
    Thorough,
}

impl Tier {
    pub fn name(&self) -> &'static str {
        match self {
            Tier::Quick => "quick",
            Tier::Thorough => "thorough",
        }
    }
}

#[derive(Clone, Debug, Deserialize)]
pub struct KnownFinding {
    pub status: String, // "known" | "fixed"
    pub property: String,
    /// prefix of Violation.key
    pub key: String,
    pub what: String,
    #[serde(default)]
    pub commit: Option<String>,
}

pub fn load_known_findings() -> Vec<KnownFinding> {
    let path = verif_root().join("known_findings.jsonl");
    let Ok(text) = std::fs::read_to_string(&path) else {
        return vec![];
    };
    text.lines()
        .filter(|l| !l.trim().is_empty() && !l.trim_start().starts_with('#'))
        .map(|l| serde_json::from_str::<KnownFinding>(l).unwrap_or_else(|e| harness_error(&format!("bad known_findings line: {e}: {l}"))))
        .collect()
}

pub fn verif_root() -> std::path::PathBuf {
    std::env::var("VERIF_ROOT").map(Into::into).unwrap_or_else(|_| "/verif".into())
}

pub fn harness_error(msg: &str) -> ! {
    eprintln!("HARNESS-ERROR: {msg}");
    std::process::exit(2);
}

pub struct Ctx {
    pub property: String,
    pub tier: Tier,
    pub seed: u64,
    pub workers: usize,
    pub started: Instant,
    pub known: Vec<KnownFinding>,
    // aggregated over batches
    pub evaluations: u64,
    pub digests: BTreeSet<u64>,
    pub nontrivial_digests: BTreeSet<u64>,
    pub interleavings: BTreeSet<u64>,
    pub probes: BTreeMap<String, u64>,
    pub sim_draws: u64,
    pub sim_evals: u64,
    pub sim_time_ns: u64,
    pub samples: Vec<J>,
    pub batches: Vec<J>,
    pub new_violations: Vec<(Violation, String)>, // (violation, replay path)
    pub known_hits: BTreeMap<String, (String, u64)>, // key prefix -> (what, count)
    pub rules: Vec<String>,
    pub reported_keys: BTreeSet<String>,
    /// digest over the event-log digests of all runs in index order: equal across processes and worker counts
    pub batch_digest: u64,
}

impl Ctx {
    pub fn new(property: &str, tier: Tier, seed: u64) -> Self {
        let workers = std::env::var("VERIF_WORKERS")
            .ok()
            .and_then(|s| s.parse().ok())
            .unwrap_or_else(|| std::thread::available_parallelism().map(|n| n.get()).unwrap_or(8));
        Ctx {
            property: property.to_string(),
            tier,
            seed,
            workers,
            started: Instant::now(),
            known: load_known_findings().into_iter().filter(|k| k.property == property).collect(),
            evaluations: 0,
            digests: BTreeSet::new(),
            nontrivial_digests: BTreeSet::new(),
            interleavings: BTreeSet::new(),
            probes: BTreeMap::new(),
            sim_draws: 0,
            sim_evals: 0,
            sim_time_ns: 0,
            samples: vec![],
            batches: vec![],
            new_violations: vec![],
            known_hits: BTreeMap::new(),
            rules: vec![],
            reported_keys: BTreeSet::new(),
            batch_digest: 0xcbf29ce484222325,
        }
    }

    pub fn n(&self, quick: u64, thorough: u64) -> u64 {
        let base = match self.tier {
            Tier::Quick => quick,
            Tier::Thorough => thorough,
        };
        // VERIF_SCALE lets a background sweep go deeper without changing code
        let scale: f64 = std::env::var("VERIF_SCALE").ok().and_then(|s| s.parse().ok()).unwrap_or(1.0);
        ((base as f64) * scale).ceil() as u64
    }

    /// Run `n` scenarios of one batch. `gener(run_seed, index)` builds scenario `index`.
    pub fn run_batch<Sc: Scenario>(
        &mut self,
        batch: &str,
        rule: &str,
        n: u64,
        gener: impl Fn(u64, u64) -> Sc + Sync,
    ) {
        // debugging aid (not used by registered commands): run one batch only
        if let Ok(only) = std::env::var("VERIF_ONLY_BATCH") {
            if only != batch {
                return;
            }
        }
        let t0 = Instant::now();
        let next = AtomicU64::new(0);
        let results: Mutex<Vec<Option<(Sc, RunOutcome)>>> = Mutex::new((0..n).map(|_| None).collect());
        let property = self.property.clone();
        let seed = self.seed;
        let abort = AtomicBool::new(false);
        std::thread::scope(|s| {
            for _ in 0..self.workers.min(n.max(1) as usize) {
                s.spawn(|| {
                    loop {
                        let i = next.fetch_add(1, Ordering::Relaxed);
                        if i >= n || abort.load(Ordering::Relaxed) {
                            break;
                        }
                        let rs = prng::run_seed(seed, &property, batch, i);
                        let sc = gener(rs, i);
                        let out = run_isolated(&sc, rs);
                        results.lock().unwrap()[i as usize] = Some((sc, out));
                    }
                });
            }
        });
        let results = results.into_inner().unwrap();
        let mut batch_viol = 0u64;
        let mut batch_nontrivial = 0u64;
        let mut first_by_key: BTreeMap<String, (u64, Sc, Violation)> = BTreeMap::new();
        for (i, r) in results.into_iter().enumerate() {
            let Some((sc, out)) = r else { continue };
            self.evaluations += 1;
            self.batch_digest = prng::splitmix64(self.batch_digest ^ out.digest);
            self.digests.insert(out.digest);
            if out.nontrivial {
                self.nontrivial_digests.insert(out.digest);
                batch_nontrivial += 1;
            }
            if let Some(il) = out.interleaving {
                self.interleavings.insert(il);
            }
            for (k, v) in &out.probes {
                *self.probes.entry(k.clone()).or_insert(0) += v;
            }
            self.sim_draws += out.sim_draws;
            self.sim_evals += out.sim_evals;
            self.sim_time_ns += out.sim_time_ns;
            if self.samples.len() < 4 || (out.nontrivial && self.samples.len() < 8 && i % 7 == 3) {
                self.samples.push(json!({"batch": batch, "index": i, "run_seed": prng::run_seed(seed, &property, batch, i as u64), "scenario": truncate_json(sc.describe()), "digest": format!("{:016x}", out.digest), "nontrivial": out.nontrivial}));
            }
            for v in out.violations {
                batch_viol += 1;
                first_by_key.entry(v.key.clone()).or_insert((i as u64, sc.clone(), v));
            }
        }
        // triage: one report per distinct key
        for (key, (index, sc, v)) in first_by_key {
            if self.reported_keys.contains(&key) {
                continue;
            }
            self.reported_keys.insert(key.clone());
            if let Some(k) = self.known.iter().find(|k| k.status == "known" && key.starts_with(&k.key)) {
                let e = self.known_hits.entry(k.key.clone()).or_insert((k.what.clone(), 0));
                e.1 += 1;
                continue;
            }
            // minimise, then replay once in a fresh thread, then report
            let rs = prng::run_seed(seed, &property, batch, index);
            let (min_sc, min_v, steps) = minimise(&sc, &v, rs);
            let path = self.write_replay(batch, index, rs, &min_sc, &min_v, steps);
            self.new_violations.push((min_v, path));
        }
        self.rules.push(format!("[{batch}] {rule}"));
        self.batches.push(json!({
            "batch": batch, "runs": n, "nontrivial_runs": batch_nontrivial, "violating_runs": batch_viol,
            "wall_s": t0.elapsed().as_secs_f64(),
        }));
    }

    fn write_replay<Sc: Scenario>(&self, batch: &str, index: u64, run_seed: u64, sc: &Sc, v: &Violation, shrink_steps: u64) -> String {
        let dir = verif_root().join("replays").join(&self.property);
        let _ = std::fs::create_dir_all(&dir);
        let path = dir.join(format!("{}-{:016x}-{:08x}.json", batch, run_seed, prng::label_hash(&v.key) as u32));
        let out = run_isolated(sc, run_seed);
        let doc = json!({
            "property": self.property,
            "batch": batch,
            "verif_seed": self.seed,
            "run_index": index,
            "run_seed": run_seed,
            "violation_key": v.key,
            "detail": v.detail,
            "shrink_steps": shrink_steps,
            "digest": format!("{:016x}", out.digest),
            "scenario": serde_json::to_value(sc).unwrap(),
        });
        std::fs::write(&path, serde_json::to_string_pretty(&doc).unwrap()).unwrap_or_else(|e| harness_error(&format!("cannot write replay: {e}")));
        path.to_string_lossy().to_string()
    }

    /// Write evidence, print verdict lines, return the process exit code.
    pub fn finish(mut self, level: &str, components: J, assumptions: Vec<String>, extra: J) -> i32 {
        let wall = self.started.elapsed().as_secs_f64();
        for (key, (what, n)) in &self.known_hits {
            println!("KNOWN-FINDING: property={} {} [{}; {} violating key(s) matched]", self.property, what, key, n);
        }
        for (v, path) in &self.new_violations {
            println!("VIOLATION property={} replay={}", self.property, path);
            println!("  key: {}\n  detail: {}", v.key, v.detail);
        }
        let zero_probes: Vec<&String> = self.probes.iter().filter(|(_, v)| **v == 0).map(|(k, _)| k).collect();
        if !zero_probes.is_empty() {
            eprintln!("WARNING: probes stuck at zero: {:?}", zero_probes);
        }
        let runs_per_hour = if wall > 0.0 { self.evaluations as f64 / wall * 3600.0 } else { 0.0 };
        self.samples.truncate(8);
        let mut coverage = json!({
            "evaluations": self.evaluations,
            "distinct_nontrivial": self.nontrivial_digests.len(),
            "rule": self.rules.join(" | "),
            "samples": self.samples,
            "distinct_digests": self.digests.len(),
            "batch_digest": format!("{:016x}", self.batch_digest),
            "distinct_interleavings": self.interleavings.len(),
            "runs_per_hour": runs_per_hour,
            "seeds_per_hour": runs_per_hour,
            "simulated_draws": self.sim_draws,
            "simulated_density_evaluations": self.sim_evals,
            "simulated_time_s": self.sim_time_ns as f64 / 1e9,
            "probes_and_fault_counts": self.probes,
            "batches": self.batches,
            "components": components,
            "known_findings_matched": self.known_hits.iter().map(|(k, (w, n))| json!({"key": k, "what": w, "count": n})).collect::<Vec<_>>(),
            "workers": self.workers,
        });
        if let (J::Object(c), J::Object(e)) = (&mut coverage, extra) {
            for (k, v) in e {
                c.insert(k, v);
            }
        }
        let ev = json!({
            "property_id": self.property,
            "tier": self.tier.name(),
            "seed": self.seed,
            "level": level,
            "coverage": coverage,
            "assumptions": assumptions,
            "wall_s": wall,
            "violations": self.new_violations.len(),
        });
        let dir = verif_root().join("evidence");
        let _ = std::fs::create_dir_all(&dir);
        let path = dir.join(format!("{}.json", self.property));
        std::fs::write(&path, serde_json::to_string_pretty(&ev).unwrap()).unwrap_or_else(|e| harness_error(&format!("cannot write evidence: {e}")));
        println!(
            "{} {}: {} runs, {} distinct non-trivial, {} new violation(s), {} known finding(s), {:.1}s",
            self.property,
            self.tier.name(),
            self.evaluations,
            self.nontrivial_digests.len(),
            self.new_violations.len(),
            self.known_hits.len(),
            wall
        );
        if self.new_violations.is_empty() { 0 } else { 1 }
    }
}

fn truncate_json(v: J) -> J {
    let s = v.to_string();
    if s.len() > 6000 {
        json!({"truncated": &s[..6000]})
    } else {
        v
    }
}

thread_local! {
    pub static QUIET_PANICS: std::cell::Cell<bool> = const { std::cell::Cell::new(false) };
}

pub fn install_panic_hook() {
    let default = std::panic::take_hook();
    std::panic::set_hook(Box::new(move |info| {
        if QUIET_PANICS.with(|q| q.get()) {
            return;
        }
        default(info);
    }));
}

/// Each run executes in a fresh OS thread whose `getrandom` state is set from the run seed, so that
/// hash-map iteration order (std RandomState) and anything else that asks the OS for entropy is a
/// function of the seed.
pub fn run_isolated<Sc: Scenario>(sc: &Sc, run_seed: u64) -> RunOutcome {
    let sc = sc.clone();
    let h = std::thread::Builder::new()
        .stack_size(16 << 20)
        .spawn(move || {
            crate::entropy::seed_thread(run_seed);
            QUIET_PANICS.with(|q| q.set(true));
            sc.run()
        })
        .unwrap_or_else(|e| harness_error(&format!("cannot spawn run thread: {e}")));
    match h.join() {
        Ok(o) => o,
        Err(p) => harness_error(&format!("scenario run panicked outside catch_unwind: {}", crate::chain::panic_message(p))),
    }
}

fn minimise<Sc: Scenario>(sc: &Sc, v: &Violation, run_seed: u64) -> (Sc, Violation, u64) {
    let mut cur = sc.clone();
    let mut cur_v = v.clone();
    let mut steps = 0u64;
    let mut budget = 400u64;
    'outer: loop {
        for cand in cur.shrink_with_hint(&cur_v.hint) {
            if budget == 0 {
                break 'outer;
            }
            budget -= 1;
            let out = run_isolated(&cand, run_seed);
            if let Some(v2) = out.violations.into_iter().find(|x| x.key == cur_v.key) {
                cur = cand;
                cur_v = v2;
                steps += 1;
                continue 'outer;
            }
        }
        break;
    }
    (cur, cur_v, steps)
}

/// Replay: re-run the explicit scenario of a replay file; exit 1 iff the same violation key reappears
/// with the same digest, 0 if the violation is gone, 2 if the run diverges from the file.
pub fn replay<Sc: Scenario>(doc: &J) -> i32 {
    let sc: Sc = serde_json::from_value(doc["scenario"].clone()).unwrap_or_else(|e| harness_error(&format!("cannot parse scenario: {e}")));
    let run_seed = doc["run_seed"].as_u64().unwrap_or(0);
    let key = doc["violation_key"].as_str().unwrap_or("").to_string();
    let out = run_isolated(&sc, run_seed);
    let digest = format!("{:016x}", out.digest);
    let same = out.violations.iter().find(|v| v.key == key);
    match same {
        Some(v) => {
            println!("REPLAY: violation reproduced: {}\n  {}", v.key, v.detail);
            if doc["digest"].as_str() == Some(&digest) {
                println!("REPLAY: digest identical ({digest})");
            } else {
                println!("REPLAY: digest differs (file {}, now {digest}) — code under test changed?", doc["digest"]);
            }
            1
        }
        None => {
            println!("REPLAY: violation not reproduced (digest now {digest}, file {})", doc["digest"]);
            for v in &out.violations {
                println!("  other violation: {} — {}", v.key, v.detail);
            }
            0
        }
    }
}
