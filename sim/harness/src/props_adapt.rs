//! C07 (step-size adaptation follows the reference recursion and stays bounded) and C08 (mass-matrix
//! adaptation whitens Gaussians exactly and never degenerates) — engine A history oracles.

use nuts_rs::{StepSizeAdaptMethod, StepSizeSettings};
use serde::{Deserialize, Serialize};
use serde_json::{Value as J, json};

use crate::chain::{CallResult, ChainCfg, Preset, run_chain};
use crate::density::Target;
use crate::driver::{RunOutcome, Scenario};
use crate::props_chain::step_info;
use crate::swarm::shrink_chain_cfg;

#[derive(Clone, Debug, Serialize, Deserialize)]
pub struct AdaptScenario {
    pub prop: String,
    pub cfg: ChainCfg,
}

fn step_settings(p: &Preset) -> Option<(StepSizeSettings, bool)> {
    // (settings, is_flow)
    match p {
        Preset::DiagNuts(s) => Some((s.adapt_options.step_size_settings, false)),
        Preset::LowRankNuts(s) => Some((s.adapt_options.step_size_settings, false)),
        Preset::FlowNuts(s) => Some((s.adapt_options.step_size_settings, true)),
        _ => None,
    }
}

fn growth_and_early(p: &Preset) -> (f64, u64) {
    match p {
        Preset::DiagNuts(s) => (s.adapt_options.mass_matrix_window_growth, s.adapt_options.early_mass_matrix_switch_freq),
        Preset::LowRankNuts(s) => (s.adapt_options.mass_matrix_window_growth, s.adapt_options.early_mass_matrix_switch_freq),
        _ => (1.0, 1),
    }
}

/// Reference dual averaging (Hoffman & Gelman 2014, as documented for this crate: weighted average of
/// the iterates with weights count^-k, iterate clamped at max_step_size).
#[derive(Clone, Debug)]
struct RefDualAvg {
    log_step: f64,
    adapted: f64,
    hbar: f64,
    mu: f64,
    count: u64,
    k: f64,
    t0: f64,
    gamma: f64,
    max: f64,
}

impl RefDualAvg {
    fn new(s: &StepSizeSettings, initial: f64) -> Self {
        let d = s.adapt_options.dual_average;
        RefDualAvg { log_step: initial.ln(), adapted: initial.ln(), hbar: 0.0, mu: (10.0 * initial).ln(), count: 1, k: d.k, t0: d.t0, gamma: d.gamma, max: d.max_step_size }
    }
    fn advance(&mut self, accept: f64, target: f64) {
        let w = 1.0 / (self.count as f64 + self.t0);
        self.hbar = (1.0 - w) * self.hbar + w * (target - accept);
        // clamped iterate: not above max_step_size, and not below the smallest positive normal number (a
        // positive finite step size whatever the history)
        self.log_step = (self.mu - self.hbar * (self.count as f64).sqrt() / self.gamma).min(self.max.ln()).max(f64::MIN_POSITIVE.ln());
        let mk = (self.count as f64).powf(-self.k);
        self.adapted = mk * self.log_step + (1.0 - mk) * self.adapted;
        self.count += 1;
    }
}

#[derive(Clone, Debug)]
struct RefAdam {
    log_step: f64,
    m: f64,
    v: f64,
    t: u64,
    b1: f64,
    b2: f64,
    eps: f64,
    lr: f64,
}

impl RefAdam {
    fn new(s: &StepSizeSettings, initial: f64) -> Self {
        let a = s.adapt_options.adam;
        RefAdam { log_step: initial.ln(), m: 0.0, v: 0.0, t: 0, b1: a.beta1, b2: a.beta2, eps: a.epsilon, lr: a.learning_rate }
    }
    fn advance(&mut self, accept: f64, target: f64) {
        let g = accept - target;
        self.t += 1;
        self.m = self.b1 * self.m + (1.0 - self.b1) * g;
        self.v = self.b2 * self.v + (1.0 - self.b2) * g * g;
        let mh = self.m / (1.0 - self.b1.powi(self.t as i32));
        let vh = self.v / (1.0 - self.b2.powi(self.t as i32));
        self.log_step += self.lr * mh / (vh.sqrt() + self.eps);
    }
}

/// The bracket property of a step-size search, judged from the trajectory tap without assuming how the search
/// walks: `seg` = the one-step trials after the search's start state (all from that state; hook H3 reports
/// the step size of each). The step size in force afterwards, f, must be
///  (B) a tried step whose one-step acceptance lies on the other side of the target than (or on it, with)
///      the acceptance of another trial at f/2, 2f or f itself - a divergent trial counts as acceptance 0 -, or
///  (L) beyond the search's range (> 1e5 or < 1e-10), or
///  (F) the configured initial step after a divergent trial or after 100 trials without a bracket (the
///      documented fallback).
/// Searches with a failed evaluation or an acceptance within 1e-12 of the target are counted, not judged.
fn check_search(what: &str, pname: &str, seg: &[nuts_rs::verif::TapState], initial_step: f64, target: f64, observed_step: Option<f64>, out: &mut RunOutcome) -> bool {
    if seg.is_empty() || seg.iter().any(|t| t.failed) {
        out.probe("search_not_decidable_from_tap", 1);
        return true;
    }
    let trials: Vec<(f64, f64)> = seg
        .iter()
        .map(|t| (t.epsilon.abs(), if t.divergent { 0.0 } else { (-(t.energy - t.initial_energy)).exp().min(1.0) }))
        .collect();
    if trials.iter().any(|(e, a)| !e.is_finite() || *e <= 0.0 || !a.is_finite() || (a - target).abs() < 1e-12) {
        out.probe("search_not_decidable_from_tap", 1);
        return true;
    }
    let any_div = seg.iter().any(|t| t.divergent);
    let Some(f) = observed_step else {
        out.probe("search_result_not_observable", 1);
        return true;
    };
    let same = |a: f64, b: f64| rel(a, b) < 1e-6;
    // every tried step is the initial step times a power of two (doubling / halving search)
    for (e, _) in &trials {
        let k = (e / initial_step).log2();
        if (k - k.round()).abs() > 1e-6 {
            out.violate(format!("C07/search_does_not_end_at_bracket/{pname}"), format!("{what}: a trial used step size {e:e}, which is not the initial step {initial_step:e} times a power of two"));
            return false;
        }
    }
    let fallback = same(f, initial_step) && (any_div || trials.len() >= 100);
    let limit = f > 1e5 || f < 1e-10;
    let at_f: Vec<f64> = trials.iter().filter(|(e, _)| same(*e, f)).map(|(_, a)| *a).collect();
    // (the search probes forward when it doubles and backward when it halves, and the first probe is always
    // forward: two probes at f itself with acceptances on both sides of the target are a bracket of width 0)
    let neighbours: Vec<f64> = trials.iter().filter(|(e, _)| same(*e, 2.0 * f) || same(*e, 0.5 * f) || same(*e, f)).map(|(_, a)| *a).collect();
    let bracket = at_f.iter().any(|a| neighbours.iter().any(|b| (a - target) * (b - target) <= 0.0));
    if fallback || limit || bracket {
        out.probe(if bracket { "searches_checked_bracketed" } else if fallback { "searches_checked_fallback" } else { "searches_checked_at_limit" }, 1);
        return true;
    }
    let shown: Vec<String> = trials.iter().take(14).map(|(e, a)| format!("{e:.4e}:{a:.4}")).collect();
    out.violate(
        format!("C07/search_does_not_end_at_bracket/{pname}"),
        format!("{what}: step size in force after the search {f:e} (initial step {initial_step:e}, target {target}); trials step:acceptance {:?}{}: no other trial at f/2, 2f or f has its acceptance on the other side of the target", shown, if any_div { " (a trial diverged, but the result is not the initial step either)" } else { "" }),
    );
    false
}

fn rel(a: f64, b: f64) -> f64 {
    (a - b).abs() / (a.abs().max(b.abs()).max(1e-300))
}

fn check_c07(cfg: &ChainCfg, h: &crate::chain::History, out: &mut RunOutcome) {
    let pname = cfg.preset.name();
    let Some((ss, is_flow)) = step_settings(&cfg.preset) else { return };
    if h.new_chain != CallResult::Ok || h.set_position != CallResult::Ok {
        return;
    }
    let si = step_info(&cfg.preset);
    let nt = cfg.preset.num_tune();
    let fws = si.final_window_start.min(nt);
    let target = ss.target_accept;
    let (growth, early_freq) = growth_and_early(&cfg.preset);
    let max_step = ss.adapt_options.dual_average.max_step_size;
    // every reported step size is finite and positive; dual averaging never exceeds max_step_size
    for (n, d) in h.draws.iter().enumerate() {
        let bar = d.f64("step_size_bar").unwrap_or(f64::NAN);
        let st = d.progress.step_size;
        if !(bar.is_finite() && bar > 0.0 && st.is_finite() && st > 0.0) {
            // dimension 0 has no acceptance statistic at all
            if cfg.target.dim() > 0 {
                let key = if st == 0.0 || bar == 0.0 { "C07/step_size_underflows_to_zero".to_string() } else { format!("C07/invalid_step_size/{pname}") };
                let zeros = h.draws[..=n].iter().rev().take_while(|x| x.f64("mean_tree_accept") == Some(0.0)).count();
                out.violate(key, format!("draw {n}: step_size {st:e}, step_size_bar {bar:e} after {zeros} consecutive draws with acceptance statistic 0 (gamma {}, t0 {})", ss.adapt_options.dual_average.gamma, ss.adapt_options.dual_average.t0));
                return;
            }
        }
        if matches!(ss.adapt_options.method, StepSizeAdaptMethod::DualAverage) && (n as u64) < nt {
            let j = ss.jitter.unwrap_or(0.0);
            // the step size set by the adaptation (not by a search) is bounded by max_step_size too
            let searched = d.counters.map(|c| !c.has_initial_mass_matrix).unwrap_or(false) && n > 0 && h.draws[n - 1].counters.map(|c| c.has_initial_mass_matrix).unwrap_or(false);
            let searched0 = n == 0 && h.init_counters.map(|c| c.has_initial_mass_matrix).unwrap_or(false) && d.counters.map(|c| !c.has_initial_mass_matrix).unwrap_or(false);
            let is_last = n as u64 + 1 == nt;
            if !searched && !searched0 && !is_flow && !is_last && st > max_step * (1.0 + j) * (1.0 + 1e-12) {
                out.violate(format!("C07/step_size_above_max/{pname}"), format!("draw {n}: step size {st:e} > max_step_size {max_step:e} (jitter {j})"));
                return;
            }
        }
    }
    if matches!(ss.adapt_options.method, StepSizeAdaptMethod::Fixed(_)) || cfg.target.dim() == 0 || h.draws.is_empty() {
        return;
    }
    // refinement: the reference recursion fed with the observed acceptance statistics reproduces the
    // reported step sizes
    enum R {
        Da(RefDualAvg),
        Adam(RefAdam),
    }
    let mut state: Option<R> = None;
    let mut checked = 0u64;
    for (n, d) in h.draws.iter().enumerate() {
        let nu = n as u64;
        if nu >= nt {
            break;
        }
        let (Some(acc), Some(acc_sym), Some(bar)) = (d.f64("mean_tree_accept"), d.f64("mean_tree_accept_sym"), d.f64("step_size_bar")) else { return };
        if !(acc >= 0.0 && acc <= 1.0 + 1e-12) || !(acc_sym >= 0.0 && acc_sym <= 1.0 + 1e-12) {
            // the statistic is a mean of acceptance probabilities: with at least one leapfrog it is a number in [0, 1]
            if d.u64("n_steps").unwrap_or(0) >= 1 {
                out.violate(format!("C07/acceptance_statistic_not_a_probability/{pname}"), format!("draw {n}: mean_tree_accept = {acc:e}, mean_tree_accept_sym = {acc_sym:e} after {} leapfrog steps (diverging: {})", d.u64("n_steps").unwrap_or(0), d.progress.diverging));
            } else {
                out.probe("nonfinite_acceptance_statistic", 1);
            }
            return;
        }
        // which statistic feeds the estimator at this draw
        let prev_c = if n == 0 { h.init_counters } else { h.draws[n - 1].counters };
        let late = if nu >= fws {
            true
        } else if is_flow {
            false
        } else if let Some(pc) = prev_c {
            let is_early = nu < pc.early_end;
            let w = if !is_early && nu == pc.early_end { pc.window.max(pc.background) } else { pc.window };
            let next = if is_early { early_freq } else { (w + 1).max((w as f64 * growth).round() as u64) };
            next + nu > fws
        } else {
            return;
        };
        let a = if late { acc_sym } else { acc };
        if late {
            out.probe("late_phase_updates", 1);
        }
        let step = d.progress.step_size;
        let reset_now = prev_c.map(|c| c.has_initial_mass_matrix).unwrap_or(false) && d.counters.map(|c| !c.has_initial_mass_matrix).unwrap_or(false);
        let is_last = nu + 1 == nt;
        match &mut state {
            None => {
                // solve for the (unobserved) result of the initial search from the first update
                if reset_now {
                    // handled below as a reset
                } else {
                    match ss.adapt_options.method {
                        StepSizeAdaptMethod::DualAverage => {
                            let o = ss.adapt_options.dual_average;
                            if bar >= o.max_step_size * (1.0 - 1e-9) {
                                out.probe("initial_step_not_identifiable_clamped", 1);
                                return;
                            }
                            let w = 1.0 / (1.0 + o.t0);
                            let hbar1 = w * (target - a);
                            let mu = bar.ln() + hbar1 / o.gamma;
                            let s0 = mu.exp() / 10.0;
                            if !is_flow && !h.init_tap.is_empty() && h.init_tap[0].start {
                                if !check_search("initial search", &pname, &h.init_tap[1..], ss.initial_step, target, Some(s0), out) {
                                    return;
                                }
                            }
                            let mut r = RefDualAvg::new(&ss, s0);
                            r.advance(a, target);
                            state = Some(R::Da(r));
                        }
                        StepSizeAdaptMethod::Adam => {
                            let mut probe = RefAdam::new(&ss, 1.0);
                            probe.advance(a, target);
                            let s0 = (bar.ln() - probe.log_step).exp();
                            if !is_flow && !h.init_tap.is_empty() && h.init_tap[0].start {
                                if !check_search("initial search", &pname, &h.init_tap[1..], ss.initial_step, target, Some(s0), out) {
                                    return;
                                }
                            }
                            let mut r = RefAdam::new(&ss, s0);
                            r.advance(a, target);
                            state = Some(R::Adam(r));
                        }
                        StepSizeAdaptMethod::Fixed(_) => return,
                    }
                }
            }
            Some(R::Da(r)) => r.advance(a, target),
            Some(R::Adam(r)) => r.advance(a, target),
        }
        // did a step-size search actually run in this call? (a second start state in the trajectory tap; a
        // recoverable failure of the density at the search's start point skips it)
        let search_ran = d.tap.iter().filter(|t| t.start).count() >= 2;
        if reset_now && !search_ran {
            out.probe("search_skipped_after_first_update", 1);
        }
        if reset_now && search_ran {
            let trajs = crate::refnuts::split_trajectories(&d.tap);
            if trajs.len() >= 2 && !trajs[1].is_empty() {
                let obs = if is_last { None } else { Some(step) };
                if !check_search(&format!("search re-run at draw {n}"), &pname, &trajs[1][1..], ss.initial_step, target, obs, out) {
                    return;
                }
            }
            // first transformation change: the search was re-run in this draw call
            // (the estimator is re-created from the found step size: bar = exp(ln(step)) up to rounding)
            if rel(bar, step) < 1e-12 || (is_last && ss.jitter.is_some()) {
                let s = bar;
                state = Some(match ss.adapt_options.method {
                    StepSizeAdaptMethod::DualAverage => R::Da(RefDualAvg::new(&ss, s)),
                    _ => R::Adam(RefAdam::new(&ss, s)),
                });
                out.probe("resynchronised_after_search", 1);
                continue;
            }
            // the search fell back to the initial step and kept the adaptation state: the recursion simply
            // continues; the step size in force is the fallback and is not predicted
            out.probe("search_fallback_kept_adaptation", 1);
            if state.is_none() {
                return;
            }
            // fall through to the bar comparison only
        }
        let Some(st) = &state else { continue };
        let (ref_bar, ref_step) = match st {
            R::Da(r) => (r.adapted.exp(), if is_last { r.adapted.exp() } else { r.log_step.exp() }),
            R::Adam(r) => (r.log_step.exp(), r.log_step.exp()),
        };
        if n > 0 || (reset_now && search_ran) {
            if rel(ref_bar, bar) > 1e-8 {
                out.violate(
                    format!("C07/averaged_step_size_differs_from_reference/{pname}"),
                    format!("draw {n}: reported step_size_bar {bar:e}, reference recursion {ref_bar:e} (statistic {} = {a}, target {target})", if late { "mean_tree_accept_sym" } else { "mean_tree_accept" }),
                );
                return;
            }
            checked += 1;
        }
        if !(reset_now && search_ran) {
            match ss.jitter {
                None => {
                    if rel(ref_step, step) > 1e-8 {
                        out.violate(format!("C07/step_size_differs_from_reference/{pname}"), format!("draw {n}: step size {step:e}, reference {ref_step:e} (last warmup draw: {is_last})"));
                        return;
                    }
                }
                Some(j) => {
                    if step < ref_step * (1.0 - j) * (1.0 - 1e-8) || step > ref_step * (1.0 + j) * (1.0 + 1e-8) {
                        out.violate(format!("C07/step_size_outside_jitter_of_reference/{pname}"), format!("draw {n}: step size {step:e}, reference {ref_step:e}, jitter {j}"));
                        return;
                    }
                }
            }
        }
    }
    out.probe("reference_updates_checked", checked);
    out.nontrivial = checked > 3;
}

/// Closed loop: on Gaussian targets the post-warmup mean acceptance is close to the target.
fn check_c07_closed_loop(cfg: &ChainCfg, h: &crate::chain::History, out: &mut RunOutcome) {
    let Some((ss, _)) = step_settings(&cfg.preset) else { return };
    let nt = cfg.preset.num_tune() as usize;
    if h.draws.len() < nt + 100 || nt < 200 {
        return;
    }
    let acc: Vec<f64> = h.draws[nt..].iter().filter_map(|d| d.f64("mean_tree_accept")).collect();
    let mean = acc.iter().sum::<f64>() / acc.len() as f64;
    out.probe("closed_loop_runs", 1);
    // wide band: it only has to separate "steers to the target" from "steers away"; the mean over a few
    // hundred draws has Monte-Carlo error itself (3 standard errors of slack, i.i.d. approximation)
    let sd = (acc.iter().map(|a| (a - mean) * (a - mean)).sum::<f64>() / (acc.len() as f64 - 1.0).max(1.0)).sqrt();
    let slack = 3.0 * sd / (acc.len() as f64).sqrt();
    if mean < ss.target_accept - 0.25 - slack || mean > (ss.target_accept + 0.17 + slack).min(0.999) {
        out.violate(
            format!("C07/closed_loop_acceptance/{}", cfg.preset.name()),
            format!("post-warmup mean acceptance {mean:.3} over {} draws, target {}", acc.len(), ss.target_accept),
        );
    }
    out.nontrivial = true;
}

// ------------------------------------------------------------------------------------------------
// C08

fn check_c08(cfg: &ChainCfg, h: &crate::chain::History, out: &mut RunOutcome) {
    let pname = cfg.preset.name();
    if h.new_chain != CallResult::Ok || h.set_position != CallResult::Ok {
        return;
    }
    let dim = cfg.target.dim();
    // (C) every reported scale is finite and strictly positive, whatever the history
    let mut n_updates = 0u64;
    // foreground size behind the transformation currently in force (None: initial or unknown)
    let mut exact_since: Option<u64> = None;
    let mut pending_exact: Option<u64> = None;
    // coordinates in which the window behind the transformation in force had a non-degenerate spread
    let mut exact_mask: Vec<bool> = vec![false; dim];
    let mut pending_mask: Vec<bool> = vec![false; dim];
    let mut any_divergence = false;
    let mut first_scale: Option<Vec<f64>> = None;
    let mut const_grad: Vec<bool> = vec![true; dim];
    // the initial point is part of every early window: its gradient is the reference
    let mut ref_grad: Option<Vec<f64>> = h.evals.iter().filter(|e| e.index < h.set_position_evals.1 && !e.returned_err).last().map(|e| e.grad.clone());
    let gauss_in_range = match &cfg.target {
        Target::DiagNormal { sigma, .. } => sigma.iter().all(|s| *s >= 1e-9 && *s <= 1e9),
        _ => false,
    };
    for (n, d) in h.draws.iter().enumerate() {
        // an update reported at draw n-1 is in force from draw n on
        if let Some(p) = pending_exact.take() {
            exact_since = Some(p);
            exact_mask = pending_mask.clone();
        }
        if d.progress.diverging {
            any_divergence = true;
        }
        for name in ["mass_matrix_inv", "mass_matrix_stds"] {
            if let Some(v) = d.vec(name) {
                if v.iter().any(|x| !(x.is_finite() && *x > 0.0)) {
                    out.violate(format!("C08/invalid_scale/{name}/{pname}"), format!("draw {n}: {:?}", v));
                    return;
                }
            }
        }
        if let (Some(ev), Some(k)) = (d.vec("mass_matrix_eigvals"), d.u64("num_eigenvalues")) {
            if ev.iter().take(k as usize).any(|x| !(x.is_finite() && *x > 0.0)) {
                out.violate(format!("C08/invalid_eigenvalue/{pname}"), format!("draw {n}: first {k} of {:?}", ev));
                return;
            }
        }
        if let Some(mu) = d.vec("transformation_mu") {
            if mu.iter().any(|x| !x.is_finite()) {
                out.violate(format!("C08/invalid_mean/{pname}"), format!("draw {n}: {:?}", mu));
                return;
            }
        }
        for name in ["energy", "fisher_distance"] {
            if let Some(e) = d.f64(name) {
                if e.is_nan() {
                    out.violate(format!("C08/nan_statistic/{name}/{pname}"), format!("draw {n}"));
                    return;
                }
            }
        }
        // the log-determinant is not reported, but energy = kinetic - logp - logdet: with a finite log density
        // at the returned state the energy is finite exactly when the log-determinant is
        if let (Some(e), Some(lp)) = (d.f64("energy"), d.f64("logp")) {
            if lp.is_finite() && !e.is_finite() {
                out.violate(
                    format!("C08/log_determinant_not_finite/{pname}"),
                    format!("draw {n}: energy {e} with log density {lp:e}: the log-determinant of the transformation in use is not finite (scales {:?})", d.vec("mass_matrix_inv").or(d.vec("mass_matrix_stds"))),
                );
                return;
            }
            out.probe("finite_energy_checked", 1);
        }
        // gradient of the accepted draw (needed for the constant-gradient rule)
        if std::env::var("VERIF_DEBUG").is_ok() {
            eprintln!("draw {n}: pos {:?} grad {:?} scale {:?} idx {:?} div {} counters {:?}", d.pos, d.vec("gradient"), d.vec("mass_matrix_inv"), d.i64("index_in_trajectory"), d.progress.diverging, d.counters);
        }
        if let Some(g) = d.vec("gradient") {
            match &ref_grad {
                None => ref_grad = Some(g.clone()),
                Some(r) => {
                    for i in 0..dim.min(g.len()) {
                        if g[i].to_bits() != r[i].to_bits() {
                            const_grad[i] = false;
                        }
                    }
                }
            }
        }
        if let Some(s) = d.vec("mass_matrix_inv") {
            if n > 0 {
                n_updates += 1;
                let fg = d.counters.map(|c| c.foreground).unwrap_or(0);
                let moved = fg >= 2 && h.draws[..=n].iter().rev().take(fg as usize - 1).all(|x| x.i64("index_in_trajectory").map(|i| i != 0).unwrap_or(false) && !x.progress.diverging);
                pending_exact = Some(if moved { fg } else { 0 });
                let lo = (n + 1).saturating_sub(fg as usize);
                for i in 0..dim {
                    let xs: Vec<f64> = h.draws[lo..=n].iter().map(|x| x.pos[i]).collect();
                    let (mn, mx) = xs.iter().fold((f64::INFINITY, f64::NEG_INFINITY), |(a, b), x| (a.min(*x), b.max(*x)));
                    let scale = xs.iter().fold(0.0f64, |a, x| a.max(x.abs()));
                    pending_mask[i] = (mx - mn) >= 1e-4 * scale.max(1e-300);
                }
            }
            match &first_scale {
                None => first_scale = Some(s.clone()),
                Some(f) => {
                    // (B) a coordinate whose gradient never varied has an invalid (infinite) estimate in
                    // every window: its scale must still be the initial one
                    // (for MCLMC a divergent draw hands the estimator a state that is not the returned one)
                    if matches!(cfg.preset, Preset::DiagNuts(_) | Preset::DiagMclmc(_)) && ref_grad.is_some() && uses_grad_estimate(&cfg.preset) && (cfg.preset.is_nuts() || !any_divergence) {
                        for i in 0..dim {
                            if const_grad[i] && s[i].to_bits() != f[i].to_bits() {
                                out.violate(
                                    format!("C08/invalid_estimate_replaced_previous_scale/{pname}"),
                                    format!("draw {n}: coordinate {i} has had the same gradient on every draw so far (no gradient variance => invalid estimate), but its scale changed from {:e} to {:e}", f[i], s[i]),
                                );
                                return;
                            }
                        }
                        if const_grad.iter().any(|c| *c) {
                            out.probe("constant_gradient_coordinates_checked", 1);
                        }
                    }
                }
            }
            // (A) exactness on Gaussian targets: the diagonal estimate from draws and gradients
            if let (Target::DiagNormal { mu, sigma }, true) = (&cfg.target, gauss_in_range && matches!(cfg.preset, Preset::DiagNuts(_) | Preset::DiagMclmc(_)) && uses_grad_estimate(&cfg.preset)) {
                let fg = d.counters.map(|c| c.foreground).unwrap_or(0);
                // the estimate in force was built from the foreground window; exact once >= 3 draws that differ
                if n > 0 && fg >= 3 {
                    let Some(tm) = d.vec("transformation_mu") else { continue };
                    let mut exact = true;
                    let lo = (n + 1).saturating_sub(fg as usize);
                    for i in 0..dim {
                        // a coordinate in which the window's draws are (nearly) identical has a variance
                        // dominated by rounding: "distinct draws" is read as a relative spread >= 1e-4
                        let xs: Vec<f64> = h.draws[lo..=n].iter().map(|x| x.pos[i]).collect();
                        let (mn, mx) = xs.iter().fold((f64::INFINITY, f64::NEG_INFINITY), |(a, b), x| (a.min(*x), b.max(*x)));
                        let scale = xs.iter().fold(0.0f64, |a, x| a.max(x.abs())).max(sigma[i]);
                        if !((mx - mn) >= 1e-4 * scale) {
                            out.probe("near_degenerate_window_coordinate_skipped", 1);
                            continue;
                        }
                        if rel(s[i], sigma[i]) > 1e-6 || (tm[i] - mu[i]).abs() > 1e-6 * (sigma[i] + mu[i].abs()) {
                            exact = false;
                        }
                    }
                    if !exact {
                        // only a violation when the window really held >= 3 distinct draws in every coordinate:
                        // decided through the moved-draw count since the last switch (conservative: require that
                        // the last fg draws all moved)
                        let moved = h.draws[..=n].iter().rev().take(fg as usize - 1).all(|x| x.i64("index_in_trajectory").map(|i| i != 0).unwrap_or(false) && !x.progress.diverging);
                        if moved && fg >= 4 {
                            out.violate(
                                format!("C08/gaussian_not_whitened_exactly/{pname}"),
                                format!("draw {n}: foreground window of {fg} accepted draws on a diagonal Gaussian (sigma {:?}, mu {:?}) gave scales {:?}, mean {:?}", sigma, mu, s, tm),
                            );
                            return;
                        }
                    } else {
                        out.probe("exact_gaussian_updates_checked", 1);
                    }
                }
            }
        }
        // whitened space: gradient = -position once the transformation is exact
        if let (Target::DiagNormal { .. }, Some(y), Some(gy)) = (&cfg.target, d.vec("transformed_position"), d.vec("transformed_gradient")) {
            // the transformation in force for this draw's trajectory is the one reported at the last update
            // event before this draw; it is exact if it was built from >= 4 accepted draws
            let fg_prev = exact_since.unwrap_or(0);
            if gauss_in_range && matches!(cfg.preset, Preset::DiagNuts(_)) && uses_grad_estimate(&cfg.preset) && fg_prev >= 4 && n > 0 {
                let recent_moved = true;
                if recent_moved {
                    let worst = (0..dim).filter(|i| exact_mask[*i]).map(|i| (y[i] + gy[i]).abs() / (1.0 + y[i].abs())).fold(0.0, f64::max);
                    if worst > 1e-5 {
                        out.violate(format!("C08/whitened_gradient_not_minus_position/{pname}"), format!("draw {n}: max |y + grad_y| / (1+|y|) = {worst:e}; y {:?}, grad {:?}", y, gy));
                        return;
                    }
                    out.probe("whitened_draws_checked", 1);
                }
            }
        }
    }
    out.probe("transformation_updates", n_updates);
    out.nontrivial = n_updates > 0;
}

/// Low-rank exactness: with every direction kept the adapted transformation whitens a Gaussian exactly.
fn check_c08_lowrank(cfg: &ChainCfg, h: &crate::chain::History, out: &mut RunOutcome) {
    let pname = cfg.preset.name();
    if h.new_chain != CallResult::Ok || h.set_position != CallResult::Ok || h.failed_call.is_some() {
        return;
    }
    let nt = cfg.preset.num_tune() as usize;
    let mut worst = 0.0f64;
    let mut n = 0u64;
    for (i, d) in h.draws.iter().enumerate().skip(nt) {
        let (Some(fd), Some(y)) = (d.f64("fisher_distance"), d.vec("transformed_position")) else { continue };
        let y2: f64 = y.iter().map(|v| v * v).sum();
        let rel = fd / (1.0 + y2);
        worst = worst.max(rel);
        n += 1;
        if !(rel <= 1e-8) {
            out.violate(
                format!("C08/lowrank_gaussian_not_whitened/{pname}"),
                format!("draw {i} (warmup {nt} draws, dimension {}): fisher_distance |y + grad_y|^2 = {fd:e} with |y|^2 = {y2:e}; y {:?}, grad_y {:?}", cfg.target.dim(), y, d.vec("transformed_gradient")),
            );
            return;
        }
    }
    if std::env::var("VERIF_DEBUG").is_ok() {
        eprintln!("lowrank_exact {pname} d={} nt={nt}: worst relative fisher distance {worst:e} over {n} draws", cfg.target.dim());
    }
    out.probe("lowrank_exact_draws_checked", n);
    out.nontrivial = n > 0;
}

fn uses_grad_estimate(p: &Preset) -> bool {
    match p {
        Preset::DiagNuts(s) => s.adapt_options.mass_matrix_options.use_grad_based_estimate,
        Preset::DiagMclmc(s) => s.adapt_options.mass_matrix_options.use_grad_based_estimate,
        _ => false,
    }
}

impl Scenario for AdaptScenario {
    fn run(&self) -> RunOutcome {
        let mut cfg = self.cfg.clone();
        cfg.keep_evals = self.prop == "C08";
        cfg.observe_math = self.prop == "C07";
        let h = run_chain(&cfg);
        let mut out = RunOutcome { digest: h.digest(), sim_draws: h.draws.len() as u64, sim_evals: h.n_evals, ..Default::default() };
        out.probe(&format!("preset_{}", cfg.preset.name()), 1);
        if let Some((i, CallResult::Panic(m), _)) = &h.failed_call {
            out.violate(format!("{}/panic/draw/{}", self.prop, cfg.preset.name()), format!("draw {i}: {}", m.chars().take(200).collect::<String>()));
        }
        match self.prop.as_str() {
            "C07" => check_c07(&cfg, &h, &mut out),
            "C07cl" => check_c07_closed_loop(&cfg, &h, &mut out),
            "C08" => check_c08(&cfg, &h, &mut out),
            "C08lr" => check_c08_lowrank(&cfg, &h, &mut out),
            other => crate::driver::harness_error(&format!("AdaptScenario: unknown property {other}")),
        }
        out
    }
    fn shrink(&self) -> Vec<Self> {
        shrink_chain_cfg(&self.cfg).into_iter().map(|cfg| AdaptScenario { prop: self.prop.clone(), cfg }).collect()
    }
    fn describe(&self) -> J {
        json!({"preset": self.cfg.preset.name(), "num_tune": self.cfg.preset.num_tune(), "num_draws": self.cfg.preset.num_draws(), "dim": self.cfg.target.dim(),
               "target": format!("{:?}", self.cfg.target).chars().take(160).collect::<String>(), "faults": self.cfg.faults.len(), "settings": serde_json::to_value(&self.cfg.preset).unwrap_or(J::Null)})
    }
}
