//! Engine B ("schedsim"), part 2: the real `Sampler` under the seeded scheduler, the user script, the
//! recorded event history and the oracles of C10–C13.

use std::panic::{AssertUnwindSafe, catch_unwind};
use std::sync::{Arc, Mutex};
use std::time::Duration;

use nuts_rs::{ChainProgress, ProgressCallback, Sampler, SamplerWaitResult, Settings};
use serde::{Deserialize, Serialize};
use serde_json::{Value as J, json};

use crate::chain::{Preset, panic_message};
use crate::driver::{RunOutcome, Scenario};
use crate::prng::{Digest, Prng, splitmix64};
use crate::sched::*;

#[derive(Clone, Debug, Serialize, Deserialize, PartialEq)]
pub enum UserCmd {
    Pause,
    Resume,
    Progress,
    Flush,
    Inspect,
    /// wait_timeout with a short finite timeout (ms of simulated time)
    WaitShort(u64),
    /// give the other tasks n chances to run (context switches of the user task)
    Yield(u32),
}

#[derive(Clone, Debug, Serialize, Deserialize, PartialEq)]
pub enum Ending {
    /// wait_timeout in a loop (finite timeouts) until the sampler reports a result
    WaitDone,
    /// one blocking wait_timeout(Duration::MAX)
    WaitBlocking,
    Abort,
}

#[derive(Clone, Debug, Serialize, Deserialize)]
pub struct SchedScenario {
    pub prop: String,
    pub preset: Preset,
    pub model: ModelCfg,
    pub store_faults: StoreFaults,
    pub num_cores: usize,
    pub callback_rate_us: Option<u64>,
    pub script: Vec<UserCmd>,
    pub ending: Ending,
    pub personality: Personality,
    pub sched_seed: u64,
    /// number of schedules explored for this (settings, model, script); schedule k uses
    /// splitmix(sched_seed + k) and personality variation
    pub n_schedules: u32,
    pub only_schedule: Option<u32>,
    /// C13: enumerate every fault position of this base run (see `enumerate_faults`)
    #[serde(default)]
    pub enumerate_faults: bool,
    #[serde(default)]
    pub only_fault: Option<u32>,
    /// real storage backend the recording storage forwards every call to
    #[serde(default)]
    pub backend: crate::sched::RealBackend,
}

/// One injected fault of the C13 enumeration.
#[derive(Clone, Debug, Serialize, Deserialize, PartialEq)]
pub enum FaultDesc {
    Density { instance: u32, at: u64, kind: crate::density::FaultKind },
    RecordErr { chain: u64, call: u64 },
    FlushErr { call: u64 },
    ChainFinalizeErr { chain: u64 },
    TraceFinalizeErr,
    ChainInspectErr { chain: u64 },
    TraceInspectErr,
    NewTraceErr,
    InitChainErr { chain: u64 },
    MathFail { call: u32 },
    BadInitFirst { n: u32 },
    InitPositionErr { call: u32 },
}

impl SchedScenario {
    pub fn with_fault(&self, f: &FaultDesc) -> SchedScenario {
        let mut s = self.clone();
        s.enumerate_faults = false;
        s.only_fault = None;
        match f {
            FaultDesc::Density { instance, at, kind } => s.model.density_faults.push((*instance, crate::density::Fault { at: *at, kind: *kind })),
            FaultDesc::RecordErr { chain, call } => s.store_faults.record_err.push((*chain, *call)),
            FaultDesc::FlushErr { call } => s.store_faults.flush_err_call = Some(*call),
            FaultDesc::ChainFinalizeErr { chain } => s.store_faults.chain_finalize_err.push(*chain),
            FaultDesc::TraceFinalizeErr => s.store_faults.trace_finalize_err = true,
            FaultDesc::ChainInspectErr { chain } => s.store_faults.chain_inspect_err.push(*chain),
            FaultDesc::TraceInspectErr => s.store_faults.trace_inspect_err = true,
            FaultDesc::NewTraceErr => s.store_faults.new_trace_err = true,
            FaultDesc::InitChainErr { chain } => s.store_faults.init_chain_err.push(*chain),
            FaultDesc::MathFail { call } => s.model.math_fail_calls.push(*call),
            FaultDesc::BadInitFirst { n } => s.model.bad_init_first = *n,
            FaultDesc::InitPositionErr { call } => s.model.init_err_call = Some(*call),
        }
        s
    }

    /// Every fault position of this base run: each density evaluation of each chain (strided when a chain
    /// has more than 48), every record_sample call, every storage/model hook.
    pub fn enumerate_faults(&self, base: &ExecResult) -> Vec<FaultDesc> {
        use crate::density::FaultKind;
        let nc = num_chains(&self.preset) as u64;
        let t = total_draws(&self.preset);
        let mut v = vec![];
        for (j, n) in base.evals_per_instance.iter().enumerate() {
            if j == 0 {
                continue; // the controller's instance is never evaluated
            }
            let n = *n;
            let pos: Vec<u64> = if n <= 48 { (0..n).collect() } else {
                let mut p: Vec<u64> = (0..12).collect();
                let stride = (n - 18) / 30 + 1;
                let mut x = 12;
                while x < n - 6 { p.push(x); x += stride; }
                p.extend(n - 6..n);
                p
            };
            for (i, at) in pos.iter().enumerate() {
                v.push(FaultDesc::Density { instance: j as u32, at: *at, kind: FaultKind::UnrecoverableErr });
                if i % 3 == 0 {
                    let kind = [FaultKind::RecoverableErr, FaultKind::NanLogp, FaultKind::EnergyJump, FaultKind::NanGrad][(i / 3) % 4];
                    v.push(FaultDesc::Density { instance: j as u32, at: *at, kind });
                }
            }
        }
        for c in 0..nc {
            for k in 0..t {
                v.push(FaultDesc::RecordErr { chain: c, call: k });
            }
            v.push(FaultDesc::ChainFinalizeErr { chain: c });
            v.push(FaultDesc::InitChainErr { chain: c });
            v.push(FaultDesc::MathFail { call: c as u32 + 1 });
            v.push(FaultDesc::InitPositionErr { call: c as u32 });
            if self.script.iter().any(|c| matches!(c, UserCmd::Inspect)) {
                v.push(FaultDesc::ChainInspectErr { chain: c });
            }
        }
        v.push(FaultDesc::MathFail { call: 0 });
        v.push(FaultDesc::TraceFinalizeErr);
        v.push(FaultDesc::NewTraceErr);
        v.push(FaultDesc::BadInitFirst { n: 1 });
        v.push(FaultDesc::BadInitFirst { n: 7 });
        v.push(FaultDesc::BadInitFirst { n: u32::MAX });
        let flushes = self.script.iter().filter(|c| matches!(c, UserCmd::Flush)).count() as u64;
        for k in 0..(flushes * nc) {
            v.push(FaultDesc::FlushErr { call: k });
        }
        if self.script.iter().any(|c| matches!(c, UserCmd::Inspect)) {
            v.push(FaultDesc::TraceInspectErr);
        }
        v
    }
}

#[derive(Clone, Debug, PartialEq)]
pub enum CmdResult {
    Ok,
    Err(String),
    Panic(String),
    Timeout,
}

#[derive(Clone, Debug)]
pub struct ChainProgressRec {
    pub finished_draws: usize,
    pub total_draws: usize,
    pub divergences: usize,
    pub tuning: bool,
    pub started: bool,
    pub total_num_steps: usize,
    pub divergent_draws: Vec<usize>,
}

fn cp(p: &ChainProgress) -> ChainProgressRec {
    ChainProgressRec {
        finished_draws: p.finished_draws,
        total_draws: p.total_draws,
        divergences: p.divergences,
        tuning: p.tuning,
        started: p.started,
        total_num_steps: p.total_num_steps,
        divergent_draws: p.divergent_draws.clone(),
    }
}

#[derive(Clone, Debug)]
pub struct UserEvent {
    pub cmd: UserCmd,
    pub invoke: u64,
    pub ret: u64,
    pub result: CmdResult,
    pub snapshot: Option<Vec<ChainProgressRec>>,
    pub inspected: Option<RecFinal>,
}

#[derive(Clone, Debug)]
pub enum FinalOutcome {
    NotReached,
    NewErr(String),
    Trace(RecFinal),
    WaitErr(String, Option<RecFinal>),
    WaitTimeoutForever,
    AbortOk(Option<String>, RecFinal),
    AbortErr(String),
    Panic(String),
}

#[derive(Clone, Debug, PartialEq)]
pub enum ExecOutcome {
    Completed,
    Deadlock(String),
    Livelock(String),
    OtherPanic(String),
}

#[derive(Clone, Debug)]
pub struct ExecResult {
    pub outcome: ExecOutcome,
    pub events: Vec<UserEvent>,
    pub records: Vec<RecordEvent>,
    pub callback_snapshots: Vec<(u64, Vec<ChainProgressRec>)>,
    pub final_outcome: FinalOutcome,
    pub final_seq: u64,
    pub faults_fired: Vec<String>,
    pub steps: u64,
    pub switches: u64,
    pub sched_digest: u64,
    pub sim_time_ns: u64,
    pub timer_fires: u64,
    pub finalized_chains: Vec<u64>,
    pub trace_finalized: bool,
    /// number of density evaluations per Model::math instance (0 = controller)
    pub evals_per_instance: Vec<u64>,
    /// recorded decisions (task choices, random-stream values) when ExecParams::record was set
    pub decisions: (Vec<u32>, Vec<u64>),
    /// (chain, seq) of every ChainStorage::flush and finalize call
    pub flush_events: Vec<(u64, u64)>,
    pub finalize_events: Vec<(u64, u64)>,
}

struct Shared {
    events: Vec<UserEvent>,
    callback_snapshots: Vec<(u64, Vec<ChainProgressRec>)>,
    final_outcome: FinalOutcome,
    final_seq: u64,
    sim_time_ns: u64,
    timer_fires: u64,
}

pub struct ExecParams {
    pub personality: Personality,
    pub sched_seed: u64,
    pub script: Vec<UserCmd>,
    pub ending: Ending,
    pub callback_rate_us: Option<u64>,
    pub with_faults: bool,
    pub num_chains: usize,
    pub num_cores: usize,
    /// record the scheduler's decisions (ExecResult::decisions)
    pub record: bool,
}

const MAX_WAITS: u32 = 20_000;

fn user_task<S: Settings, M: nuts_rs::Model>(settings: S, sc: &SchedScenario, p: &ExecParams, rec: SharedRecorder, model: M, shared: Arc<Mutex<Shared>>) {
    use nuts_rs_verif_rt::clock::next_event;
    let faults = if p.with_faults { sc.store_faults.clone() } else { StoreFaults::default() };
    let cfg = RecConfig { rec: rec.clone(), faults, backend: sc.backend };
    let callback = p.callback_rate_us.map(|us| {
        let sh = shared.clone();
        ProgressCallback {
            callback: Box::new(move |_d: Duration, pr: Box<[ChainProgress]>| {
                let seq = next_event();
                sh.lock().unwrap().callback_snapshots.push((seq, pr.iter().map(cp).collect()));
            }),
            rate: Duration::from_micros(us),
        }
    });
    let created = catch_unwind(AssertUnwindSafe(|| Sampler::new(model, settings, cfg, p.num_cores, callback)));
    let mut sampler = match created {
        Ok(Ok(s)) => Some(s),
        Ok(Err(e)) => {
            shared.lock().unwrap().final_outcome = FinalOutcome::NewErr(format!("{e:#}"));
            None
        }
        Err(pn) => {
            shared.lock().unwrap().final_outcome = FinalOutcome::Panic(format!("Sampler::new: {}", panic_message(pn)));
            None
        }
    };
    for cmd in &p.script {
        let Some(s) = sampler.as_mut() else { break };
        let invoke = next_event();
        let mut snapshot = None;
        let mut inspected = None;
        let mut consumed = false;
        let result = match cmd {
            UserCmd::Yield(n) => {
                for _ in 0..*n {
                    shuttle::thread::yield_now();
                }
                CmdResult::Ok
            }
            UserCmd::Pause => wrap(catch_unwind(AssertUnwindSafe(|| s.pause()))),
            UserCmd::Resume => wrap(catch_unwind(AssertUnwindSafe(|| s.resume()))),
            UserCmd::Flush => wrap(catch_unwind(AssertUnwindSafe(|| s.flush()))),
            UserCmd::Progress => match catch_unwind(AssertUnwindSafe(|| s.progress())) {
                Ok(Ok(pr)) => {
                    snapshot = Some(pr.iter().map(cp).collect());
                    CmdResult::Ok
                }
                Ok(Err(e)) => CmdResult::Err(format!("{e:#}")),
                Err(pn) => CmdResult::Panic(panic_message(pn)),
            },
            UserCmd::Inspect => match catch_unwind(AssertUnwindSafe(|| s.inspect())) {
                Ok(Ok((err, tr))) => {
                    inspected = Some(tr);
                    match err {
                        None => CmdResult::Ok,
                        Some(e) => CmdResult::Err(format!("inspect reported: {e:#}")),
                    }
                }
                Ok(Err(e)) => CmdResult::Err(format!("{e:#}")),
                Err(pn) => CmdResult::Panic(panic_message(pn)),
            },
            UserCmd::WaitShort(ms) => {
                consumed = true;
                let owned = sampler.take().unwrap();
                match catch_unwind(AssertUnwindSafe(|| owned.wait_timeout(Duration::from_millis(*ms)))) {
                    Ok(SamplerWaitResult::Timeout(s2)) => {
                        sampler = Some(s2);
                        CmdResult::Timeout
                    }
                    Ok(SamplerWaitResult::Trace(t)) => {
                        let mut sh = shared.lock().unwrap();
                        sh.final_outcome = FinalOutcome::Trace(t);
                        CmdResult::Ok
                    }
                    Ok(SamplerWaitResult::Err(e, t)) => {
                        let mut sh = shared.lock().unwrap();
                        sh.final_outcome = FinalOutcome::WaitErr(format!("{e:#}"), t);
                        CmdResult::Err("wait_timeout returned Err".into())
                    }
                    Err(pn) => {
                        let m = panic_message(pn);
                        shared.lock().unwrap().final_outcome = FinalOutcome::Panic(format!("wait_timeout: {m}"));
                        CmdResult::Panic(m)
                    }
                }
            }
        };
        let _ = consumed;
        let ret = next_event();
        shared.lock().unwrap().events.push(UserEvent { cmd: cmd.clone(), invoke, ret, result, snapshot, inspected });
    }
    if let Some(mut s) = sampler.take() {
        let outcome = match p.ending {
            Ending::Abort => match catch_unwind(AssertUnwindSafe(|| s.abort())) {
                Ok(Ok((err, tr))) => FinalOutcome::AbortOk(err.map(|e| format!("{e:#}")), tr),
                Ok(Err(e)) => FinalOutcome::AbortErr(format!("{e:#}")),
                Err(pn) => FinalOutcome::Panic(format!("abort: {}", panic_message(pn))),
            },
            Ending::WaitBlocking => match catch_unwind(AssertUnwindSafe(|| s.wait_timeout(Duration::MAX))) {
                Ok(SamplerWaitResult::Trace(t)) => FinalOutcome::Trace(t),
                Ok(SamplerWaitResult::Err(e, t)) => FinalOutcome::WaitErr(format!("{e:#}"), t),
                Ok(SamplerWaitResult::Timeout(_)) => FinalOutcome::WaitTimeoutForever,
                Err(pn) => FinalOutcome::Panic(format!("wait_timeout: {}", panic_message(pn))),
            },
            Ending::WaitDone => {
                let mut out = FinalOutcome::WaitTimeoutForever;
                for _ in 0..MAX_WAITS {
                    match catch_unwind(AssertUnwindSafe(|| s.wait_timeout(Duration::from_millis(20)))) {
                        Ok(SamplerWaitResult::Timeout(s2)) => {
                            s = s2;
                            continue;
                        }
                        Ok(SamplerWaitResult::Trace(t)) => {
                            out = FinalOutcome::Trace(t);
                            break;
                        }
                        Ok(SamplerWaitResult::Err(e, t)) => {
                            out = FinalOutcome::WaitErr(format!("{e:#}"), t);
                            break;
                        }
                        Err(pn) => {
                            out = FinalOutcome::Panic(format!("wait_timeout: {}", panic_message(pn)));
                            break;
                        }
                    }
                }
                out
            }
        };
        let mut sh = shared.lock().unwrap();
        sh.final_outcome = outcome;
    }
    let mut sh = shared.lock().unwrap();
    sh.final_seq = next_event();
    sh.sim_time_ns = nuts_rs_verif_rt::clock::now_ns();
    sh.timer_fires = nuts_rs_verif_rt::clock::timer_fires();
}

fn wrap(r: std::thread::Result<anyhow::Result<()>>) -> CmdResult {
    match r {
        Ok(Ok(())) => CmdResult::Ok,
        Ok(Err(e)) => CmdResult::Err(format!("{e:#}")),
        Err(p) => CmdResult::Panic(panic_message(p)),
    }
}

fn with_chains(p: &Preset, n: usize) -> Preset {
    let mut p = p.clone();
    match &mut p {
        Preset::DiagNuts(s) => s.num_chains = n,
        Preset::LowRankNuts(s) => s.num_chains = n,
        Preset::FlowNuts(s) => s.num_chains = n,
        Preset::DiagMclmc(s) => s.num_chains = n,
        Preset::LowRankMclmc(s) => s.num_chains = n,
        Preset::FlowMclmc(s) => s.num_chains = n,
    }
    p
}

pub fn set_seed(p: &mut Preset, seed: u64) {
    match p {
        Preset::DiagNuts(s) => s.seed = seed,
        Preset::LowRankNuts(s) => s.seed = seed,
        Preset::FlowNuts(s) => s.seed = seed,
        Preset::DiagMclmc(s) => s.seed = seed,
        Preset::LowRankMclmc(s) => s.seed = seed,
        Preset::FlowMclmc(s) => s.seed = seed,
    }
}

pub fn num_chains(p: &Preset) -> usize {
    match p {
        Preset::DiagNuts(s) => s.num_chains,
        Preset::LowRankNuts(s) => s.num_chains,
        Preset::FlowNuts(s) => s.num_chains,
        Preset::DiagMclmc(s) => s.num_chains,
        Preset::LowRankMclmc(s) => s.num_chains,
        Preset::FlowMclmc(s) => s.num_chains,
    }
}

/// One complete execution of the system under the seeded scheduler.
pub fn execute(sc: &SchedScenario, p: ExecParams) -> ExecResult {
    nuts_rs_verif_rt::clock::reset();
    reset_task_init();
    let rec: SharedRecorder = Arc::new(Mutex::new(Recorder::default()));
    let shared = Arc::new(Mutex::new(Shared {
        events: vec![],
        callback_snapshots: vec![],
        final_outcome: FinalOutcome::NotReached,
        final_seq: 0,
        sim_time_ns: 0,
        timer_fires: 0,
    }));
    let trace = Arc::new(Mutex::new(SchedTrace { record: p.record, ..Default::default() }));
    let scheduler = SeededScheduler::new(p.personality.clone(), p.sched_seed, trace.clone());
    let mut config = shuttle::Config::new();
    config.stack_size = 2 << 20;
    config.failure_persistence = shuttle::FailurePersistence::None;
    config.max_steps = shuttle::MaxSteps::FailAfter(3_000_000);
    config.silence_warnings = true;
    let runner = shuttle::Runner::new(scheduler, config);
    let mut mcfg = sc.model.clone();
    if !p.with_faults {
        mcfg.density_faults.clear();
        mcfg.math_fail_calls.clear();
        mcfg.bad_init_first = 0;
        mcfg.init_err_call = None;
    }
    let model_state: Arc<Mutex<Vec<String>>> = Arc::new(Mutex::new(vec![]));
    let evals_pi: Arc<Mutex<Vec<u64>>> = Arc::new(Mutex::new(vec![]));
    let evals_pi2 = evals_pi.clone();
    let preset = with_chains(&sc.preset, p.num_chains);
    let sc2 = sc.clone();
    let rec2 = rec.clone();
    let shared2 = shared.clone();
    let ms2 = model_state.clone();
    let p = Arc::new(p);
    let p2 = p.clone();
    let body = move || {
        let model = BadInitModel {
            inner: SimModel::new(mcfg.clone()),
            per_task_attempts: Mutex::new(Default::default()),
        };
        // the model is moved into the sampler; its fault log is shared through `ms2`
        let fired = ms2.clone();
        let model = FaultLogModel { inner: model, fired, evals: evals_pi2.clone() };
        match &preset {
            Preset::DiagNuts(s) => user_task(*s, &sc2, &p2, rec2.clone(), model, shared2.clone()),
            Preset::LowRankNuts(s) => user_task(*s, &sc2, &p2, rec2.clone(), model, shared2.clone()),
            Preset::FlowNuts(s) => user_task(*s, &sc2, &p2, rec2.clone(), model, shared2.clone()),
            Preset::DiagMclmc(s) => user_task(*s, &sc2, &p2, rec2.clone(), model, shared2.clone()),
            Preset::LowRankMclmc(s) => user_task(*s, &sc2, &p2, rec2.clone(), model, shared2.clone()),
            Preset::FlowMclmc(s) => user_task(*s, &sc2, &p2, rec2.clone(), model, shared2.clone()),
        }
    };
    let r = catch_unwind(AssertUnwindSafe(|| runner.run(body)));
    let outcome = match r {
        Ok(_) => ExecOutcome::Completed,
        Err(pn) => {
            let m = panic_message(pn);
            if m.contains("deadlock") {
                ExecOutcome::Deadlock(m.chars().take(300).collect())
            } else if m.contains("exceeded max_steps") {
                ExecOutcome::Livelock(m.chars().take(200).collect())
            } else {
                ExecOutcome::OtherPanic(m.chars().take(400).collect())
            }
        }
    };
    let sh = shared.lock().unwrap();
    let rc = rec.lock().unwrap();
    let tr = trace.lock().unwrap();
    let mut faults_fired = rc.faults_fired.clone();
    faults_fired.extend(model_state.lock().unwrap().iter().cloned());
    RETRIED.with(|r| {
        for l in r.borrow().iter() {
            faults_fired.push(format!("retried_after_{l}"));
        }
    });
    ExecResult {
        outcome,
        events: sh.events.clone(),
        records: rc.records.clone(),
        callback_snapshots: sh.callback_snapshots.clone(),
        final_outcome: sh.final_outcome.clone(),
        final_seq: sh.final_seq,
        faults_fired,
        steps: tr.steps,
        switches: tr.switches,
        sched_digest: tr.digest.0,
        sim_time_ns: sh.sim_time_ns,
        timer_fires: sh.timer_fires,
        finalized_chains: rc.finalized_chains.clone(),
        trace_finalized: rc.trace_finalized,
        evals_per_instance: evals_pi.lock().unwrap().clone(),
        decisions: (tr.choices.clone(), tr.data.clone()),
        flush_events: rc.flush_events.clone(),
        finalize_events: rc.finalize_events.clone(),
    }
}

/// Model wrapper that publishes which model/density faults fired (the model itself is moved into the
/// sampler and dropped there).
pub struct FaultLogModel {
    inner: BadInitModel,
    fired: Arc<Mutex<Vec<String>>>,
    evals: Arc<Mutex<Vec<u64>>>,
}

impl Drop for FaultLogModel {
    fn drop(&mut self) {
        let st = self.inner.inner.state.lock().unwrap();
        let mut f = self.fired.lock().unwrap();
        f.extend(st.faults_fired.iter().cloned());
        let mut ev = self.evals.lock().unwrap();
        ev.clear();
        // logs are pushed for successful math() calls only; failed calls have no instance
        let mut idx = 0u32;
        for call in 0..st.math_calls {
            if self.inner.inner.cfg.math_fail_calls.contains(&call) {
                ev.push(0);
            } else {
                ev.push(st.logs[idx as usize].lock().unwrap().n_evals);
                idx += 1;
            }
        }
        for (i, log) in st.logs.iter().enumerate() {
            for (at, kind) in &log.lock().unwrap().faults_fired {
                f.push(format!("density_{}@{}:{}", kind.name(), i, at));
            }
        }
    }
}

impl nuts_rs::Model for FaultLogModel {
    type Math<'model> = <BadInitModel as nuts_rs::Model>::Math<'model>;
    fn math<R: rand::Rng + ?Sized>(&self, rng: &mut R) -> anyhow::Result<Self::Math<'_>> {
        self.inner.math(rng)
    }
    fn init_position<R: rand::Rng + ?Sized>(&self, rng: &mut R, position: &mut [f64]) -> anyhow::Result<()> {
        self.inner.init_position(rng, position)
    }
}


// ------------------------------------------------------------------------------------------------
// scenario, oracles

fn total_draws(p: &Preset) -> u64 {
    p.num_tune() + p.num_draws()
}

fn per_chain(records: &[RecordEvent], n: usize) -> Vec<Vec<&RecordEvent>> {
    let mut v: Vec<Vec<&RecordEvent>> = (0..n).map(|_| vec![]).collect();
    for r in records {
        if (r.chain as usize) < n {
            v[r.chain as usize].push(r);
        }
    }
    v
}

pub fn schedule_params(sc: &SchedScenario, k: u32, est_steps: u64) -> (Personality, u64) {
    let seed = splitmix64(sc.sched_seed.wrapping_add(k as u64));
    if k == 0 {
        return (sc.personality.clone(), seed);
    }
    let mut r = Prng::sub(seed, "personality");
    let pers = if r.chance(0.6) {
        Personality::Sticky { stick: *r.pick(&[0.0, 0.5, 0.9, 0.99]) }
    } else {
        Personality::Priority { changes: r.range(1, 6) as u32, horizon: (est_steps * 2).max(50) as u32 }
    };
    (pers, seed)
}

impl SchedScenario {
    fn baseline(&self, nc: usize) -> ExecResult {
        execute(
            self,
            ExecParams {
                personality: Personality::Fifo,
                sched_seed: 0,
                script: vec![],
                ending: Ending::WaitDone,
                callback_rate_us: None,
                with_faults: false,
                num_chains: nc,
                num_cores: 1,
                record: false,
            },
        )
    }
}

fn exec_digest(ex: &ExecResult) -> u64 {
    let mut d = Digest::new();
    d.u64(ex.sched_digest);
    for r in &ex.records {
        d.u64(r.seq);
        d.u64(r.chain);
        d.u64(r.digest);
    }
    for e in &ex.events {
        d.u64(e.invoke);
        d.u64(e.ret);
        d.str(&format!("{:?}", e.result));
    }
    d.str(&format!("{:?}", std::mem::discriminant(&ex.final_outcome)));
    d.u64(ex.final_seq);
    d.u64(ex.sim_time_ns);
    d.0
}

impl Scenario for SchedScenario {
    fn run(&self) -> RunOutcome {
        let mut out = RunOutcome::default();
        let nc = num_chains(&self.preset);
        let t = total_draws(&self.preset) as usize;
        let prop = self.prop.as_str();
        let base = self.baseline(nc);
        let mut dg = Digest::new();
        dg.u64(exec_digest(&base));
        // the baseline must be a complete, clean run
        let base_ok = base.outcome == ExecOutcome::Completed && matches!(base.final_outcome, FinalOutcome::Trace(_));
        let base_chains = per_chain(&base.records, nc);
        if !base_ok || base_chains.iter().any(|c| c.len() != t) {
            out.violate(
                format!("{prop}/baseline_run_failed"),
                format!("uninterrupted FIFO run: outcome {:?}, final {:?}, records per chain {:?} (expected {t})", base.outcome, short_final(&base.final_outcome), base_chains.iter().map(|c| c.len()).collect::<Vec<_>>()),
            );
            out.digest = dg.0;
            return out;
        }
        let base_seqs: Vec<Vec<u64>> = base_chains.iter().map(|c| c.iter().map(|r| r.digest).collect()).collect();
        if prop == "C10" {
            // (2) chain i does not depend on how many other chains run
            for other in [nc + 1, nc.saturating_sub(1)] {
                if other == 0 || other == nc {
                    continue;
                }
                let b2 = self.baseline(other);
                let c2 = per_chain(&b2.records, other);
                for c in 0..nc.min(other) {
                    let s2: Vec<u64> = c2[c].iter().map(|r| r.digest).collect();
                    if s2 != base_seqs[c] {
                        out.violate("C10/chain_depends_on_number_of_chains", format!("chain {c}: trace with {nc} chains differs from trace with {other} chains (first difference at draw {:?})", first_diff(&s2, &base_seqs[c])));
                    }
                }
            }
            // (3) no two chains produce the same draws
            if t > 0 {
                let nochain: Vec<Vec<u64>> = base_chains.iter().map(|c| c.iter().map(|r| r.digest_nochain).collect()).collect();
                for a in 0..nc {
                    for b in (a + 1)..nc {
                        if nochain[a] == nochain[b] {
                            out.violate("C10/two_chains_identical", format!("chains {a} and {b} recorded identical draws and statistics ({t} draws)"));
                        }
                    }
                }
            }
        }
        if prop == "C13" && self.enumerate_faults {
            let faults = self.enumerate_faults(&base);
            out.probe("fault_positions_enumerated", faults.len() as u64);
            for (idx, f) in faults.iter().enumerate() {
                if let Some(only) = self.only_fault {
                    if only != idx as u32 {
                        continue;
                    }
                }
                let sub = self.with_fault(f);
                let r = sub.run_schedules(&base, &base_seqs, &format!("fault #{idx} {f:?}"));
                dg.u64(r.digest);
                out.merge(r);
            }
            out.digest = dg.0;
            return out;
        }
        let r = self.run_schedules(&base, &base_seqs, "");
        dg.u64(r.digest);
        out.merge(r);
        out.digest = dg.0;
        out
    }

    fn shrink(&self) -> Vec<Self> {
        let mut v = vec![];
        if self.enumerate_faults {
            // materialise the failing fault as an explicit one
            let base = self.baseline(num_chains(&self.preset));
            for f in self.enumerate_faults(&base) {
                v.push(self.with_fault(&f));
            }
            return v;
        }
        if self.only_schedule.is_none() && self.n_schedules > 1 {
            for k in 0..self.n_schedules {
                let mut s = self.clone();
                s.only_schedule = Some(k);
                v.push(s);
            }
            return v;
        }
        // drop script commands (a candidate must stay a well-formed scenario: waiting for completion while
        // paused is a user error, which the generator never produces and the minimiser must not invent)
        for i in 0..self.script.len() {
            let mut s = self.clone();
            s.script.remove(i);
            if s.ending != Ending::Abort {
                let mut paused = false;
                for c in &s.script {
                    match c {
                        UserCmd::Pause => paused = true,
                        UserCmd::Resume => paused = false,
                        _ => {}
                    }
                }
                if paused {
                    continue;
                }
            }
            v.push(s);
        }
        // drop faults
        for i in 0..self.model.density_faults.len() {
            let mut s = self.clone();
            s.model.density_faults.remove(i);
            v.push(s);
        }
        if self.callback_rate_us.is_some() {
            let mut s = self.clone();
            s.callback_rate_us = None;
            v.push(s);
        }
        // fewer chains / cores / draws
        let nc = num_chains(&self.preset);
        if nc > 1 {
            let mut s = self.clone();
            s.preset = with_chains(&s.preset, nc - 1);
            v.push(s);
        }
        if self.num_cores > 1 {
            let mut s = self.clone();
            s.num_cores -= 1;
            v.push(s);
        }
        let (nt, nd) = (self.preset.num_tune(), self.preset.num_draws());
        if nd > 0 {
            let mut s = self.clone();
            s.preset.set_num_draws(nd / 2);
            v.push(s);
        }
        if nt > 1 {
            let mut s = self.clone();
            s.preset.set_num_tune(nt / 2);
            crate::checks::fix_early_window(&mut s.preset, nt / 2);
            v.push(s);
        }
        if let Personality::Script { choices, data } = &self.personality {
            // decision-list minimisation: shorter prefixes (the rest follows the FIFO rule), blocks replaced by
            // "stay on the current task", and the timer stream replaced by the default pattern
            let n = choices.len();
            let mut lens: Vec<usize> = vec![0, n / 8, n / 4, n / 2, n - n / 4, n - n / 8, n.saturating_sub(8), n.saturating_sub(1)];
            lens.sort();
            lens.dedup();
            for l in lens {
                if l < n {
                    let mut s = self.clone();
                    s.personality = Personality::Script { choices: choices[..l].to_vec(), data: data.clone() };
                    v.push(s);
                }
            }
            if !data.is_empty() {
                let mut s = self.clone();
                s.personality = Personality::Script { choices: choices.clone(), data: vec![] };
                v.push(s);
            }
            let blocks = 8.min(n);
            for b in 0..blocks {
                let (lo, hi) = (b * n / blocks, (b + 1) * n / blocks);
                if choices[lo..hi].iter().all(|c| *c == crate::sched::SCRIPT_STAY) {
                    continue;
                }
                let mut c2 = choices.clone();
                for c in &mut c2[lo..hi] {
                    *c = crate::sched::SCRIPT_STAY;
                }
                let mut s = self.clone();
                s.personality = Personality::Script { choices: c2, data: data.clone() };
                v.push(s);
            }
            return v;
        }
        if self.personality != Personality::Fifo {
            let mut s = self.clone();
            s.personality = Personality::Fifo;
            v.push(s);
        }
        // last resort of the configuration-level shrinking: make the schedule explicit (decision list of the
        // failing execution), which the candidates above then shorten
        if let Some(k) = self.only_schedule {
            if !self.enumerate_faults {
                if let Some(s) = self.scripted(k) {
                    v.push(s);
                }
            }
        }
        v
    }

    fn describe(&self) -> J {
        json!({
            "preset": self.preset.name(), "num_chains": num_chains(&self.preset), "num_cores": self.num_cores,
            "num_tune": self.preset.num_tune(), "num_draws": self.preset.num_draws(),
            "dim": self.model.target.dim(), "script": format!("{:?}", self.script), "ending": format!("{:?}", self.ending),
            "callback_rate_us": self.callback_rate_us, "personality": format!("{:?}", self.personality),
            "n_schedules": self.n_schedules,
            "density_faults": self.model.density_faults, "math_fail_calls": self.model.math_fail_calls,
            "bad_init_first": self.model.bad_init_first, "store_faults": serde_json::to_value(&self.store_faults).unwrap_or(J::Null),
        })
    }
}


impl SchedScenario {
    /// the same scenario with schedule `k` made explicit as a decision list
    fn scripted(&self, k: u32) -> Option<SchedScenario> {
        let nc = num_chains(&self.preset);
        let base = self.baseline(nc);
        let (pers, seed) = schedule_params(self, k, base.steps);
        let ex = execute(
            self,
            ExecParams {
                personality: pers,
                sched_seed: seed,
                script: self.script.clone(),
                ending: self.ending.clone(),
                callback_rate_us: self.callback_rate_us,
                with_faults: self.prop == "C13",
                num_chains: nc,
                num_cores: self.num_cores,
                record: true,
            },
        );
        let (choices, data) = ex.decisions;
        if choices.is_empty() || choices.len() > 400_000 {
            return None;
        }
        let mut s = self.clone();
        s.personality = Personality::Script { choices, data };
        s.n_schedules = 1;
        s.only_schedule = Some(0);
        Some(s)
    }

    fn run_schedules(&self, base: &ExecResult, base_seqs: &[Vec<u64>], what: &str) -> RunOutcome {
        let mut out = RunOutcome::default();
        let mut dg = Digest::new();
        let nc = num_chains(&self.preset);
        let prop = self.prop.as_str();
        BASE_REAL.with(|c| {
            c.set(match &base.final_outcome {
                FinalOutcome::Trace(t) => match &t.real {
                    Some(Ok(d)) => Some(*d),
                    _ => None,
                },
                _ => None,
            })
        });
        if let FinalOutcome::Trace(RecFinal { real: Some(Err(e)), .. }) = &base.final_outcome {
            out.violate(format!("{prop}/real_backend_failed/{:?}", self.backend), format!("uninterrupted run: {}", e.chars().take(200).collect::<String>()));
        }
        let ks: Vec<u32> = match self.only_schedule {
            Some(k) => vec![k],
            None => (0..self.n_schedules).collect(),
        };
        for k in ks {
            let (pers, seed) = schedule_params(self, k, base.steps);
            let with_faults = prop == "C13";
            let ex = execute(
                self,
                ExecParams {
                    personality: pers,
                    sched_seed: seed,
                    script: self.script.clone(),
                    ending: self.ending.clone(),
                    callback_rate_us: self.callback_rate_us,
                    with_faults,
                    num_chains: nc,
                    num_cores: self.num_cores,
                    record: false,
                },
            );
            dg.u64(exec_digest(&ex));
            out.interleaving = Some(out.interleaving.unwrap_or(0) ^ splitmix64(ex.sched_digest));
            out.sim_time_ns += ex.sim_time_ns;
            out.sim_draws += ex.records.len() as u64;
            out.probe("executions", 1);
            out.probe("scheduler_steps", ex.steps);
            out.probe("context_switches", ex.switches);
            out.probe("timer_expiries", ex.timer_fires);
            for f in &ex.faults_fired {
                let kind = f.split('@').next().unwrap_or(f);
                out.probe(&format!("fault_fired_{kind}"), 1);
            }
            let tag = if what.is_empty() { format!("schedule {k}") } else { format!("{what}, schedule {k}") };
            // Progress ("the run finishes") is only meaningful under a fair schedule. The seeded personalities
            // are fair to polling tasks; the explicit ones that only the minimiser creates (a decision list whose
            // tail follows the FIFO rule, or plain FIFO) are not: two polling tasks can starve the workers for
            // ever. An execution that does not terminate under such a schedule is not judged, so that the
            // minimiser cannot trade a real violation for a starvation artefact with the same key.
            let explicit = matches!(self.personality, Personality::Script { .. } | Personality::Fifo);
            let nonterminating = matches!(ex.outcome, ExecOutcome::Livelock(_)) || matches!(ex.final_outcome, FinalOutcome::WaitTimeoutForever);
            if explicit && nonterminating {
                out.probe("nonterminating_under_explicit_schedule_not_judged", 1);
                continue;
            }
            match &ex.outcome {
                ExecOutcome::Completed => {}
                ExecOutcome::Deadlock(m) => {
                    out.violate(format!("{prop}/deadlock"), format!("{tag}: {m}"));
                    continue;
                }
                ExecOutcome::Livelock(m) => {
                    out.violate(format!("{prop}/livelock"), format!("{tag}: {m}"));
                    continue;
                }
                ExecOutcome::OtherPanic(m) => {
                    out.violate(format!("{prop}/uncaught_panic"), format!("{tag}: {m}"));
                    continue;
                }
            }
            match prop {
                "C10" => oracle_c10(self, &ex, base_seqs, &mut out, &tag),
                "C11" => oracle_c11(self, &ex, base_seqs, &mut out, &tag),
                "C12" => oracle_c12(self, &ex, base_seqs, &mut out, &tag),
                "C13" => oracle_c13(self, &ex, base_seqs, &mut out, &tag),
                "C15" => oracle_c15_flush(self, &ex, base_seqs, &mut out, &tag),
                other => crate::driver::harness_error(&format!("SchedScenario: unknown property {other}")),
            }
        }

        out.digest = dg.0;
        out
    }
}

fn short_final(f: &FinalOutcome) -> String {
    let s = format!("{f:?}");
    s.chars().take(160).collect()
}

fn first_diff(a: &[u64], b: &[u64]) -> Option<usize> {
    let n = a.len().min(b.len());
    for i in 0..n {
        if a[i] != b[i] {
            return Some(i);
        }
    }
    if a.len() != b.len() { Some(n) } else { None }
}

fn was_aborted(sc: &SchedScenario, ex: &ExecResult) -> bool {
    sc.ending == Ending::Abort && matches!(ex.final_outcome, FinalOutcome::AbortOk(..) | FinalOutcome::AbortErr(..))
}

/// Trace comparison shared by C10/C11/C12: the recorded per-chain sequences equal the baseline's (a
/// prefix if the run was aborted), and the finalized trace returned to the user holds exactly what
/// was recorded.
thread_local! {
    /// digest of the real backend's finalized trace in the baseline run of the scenario being judged
    static BASE_REAL: std::cell::Cell<Option<u64>> = const { std::cell::Cell::new(None) };
}

fn check_traces(prop: &str, sc: &SchedScenario, ex: &ExecResult, base: &[Vec<u64>], out: &mut RunOutcome, tag: &str) {
    let nc = base.len();
    let chains = per_chain(&ex.records, nc);
    let aborted = was_aborted(sc, ex);
    for c in 0..nc {
        let seq: Vec<u64> = chains[c].iter().map(|r| r.digest).collect();
        // order and numbering of the draws
        for (i, r) in chains[c].iter().enumerate() {
            if r.draw != i as u64 {
                out.violate(format!("{prop}/draw_numbering"), format!("{tag}: chain {c} record {i} carries Progress.draw={}", r.draw));
                break;
            }
        }
        if aborted {
            if seq.len() > base[c].len() || seq[..] != base[c][..seq.len()] {
                out.violate(
                    format!("{prop}/aborted_trace_not_a_prefix"),
                    format!("{tag}: chain {c}: {} draws recorded, first difference to the uninterrupted run at draw {:?}", seq.len(), first_diff(&seq, &base[c])),
                );
            }
            if seq.len() < base[c].len() {
                out.probe("aborted_with_partial_trace", 1);
            }
        } else if seq != base[c] {
            let key = if seq.len() != base[c].len() { "trace_incomplete" } else { "trace_differs_from_uninterrupted_run" };
            out.violate(
                format!("{prop}/{key}"),
                format!("{tag}: chain {c}: {} draws recorded (expected {}), first difference at draw {:?}", seq.len(), base[c].len(), first_diff(&seq, &base[c])),
            );
        }
    }
    // what the user got back
    let fin = match &ex.final_outcome {
        FinalOutcome::Trace(t) => Some(t),
        FinalOutcome::AbortOk(None, t) => Some(t),
        _ => None,
    };
    if let Some(fin) = fin {
        if fin.chains.len() != nc {
            out.violate(format!("{prop}/finalized_trace_chain_count"), format!("{tag}: finalized trace has {} chains, expected {nc}", fin.chains.len()));
        }
        for (cid, digs) in &fin.chains {
            let c = *cid as usize;
            if c >= nc {
                out.violate(format!("{prop}/finalized_trace_unknown_chain"), format!("{tag}: chain id {cid}"));
                continue;
            }
            let seq: Vec<u64> = chains[c].iter().map(|r| r.digest).collect();
            if *digs != seq {
                out.violate(format!("{prop}/finalized_trace_differs_from_recorded"), format!("{tag}: chain {c}: finalized {} draws, recorded {}", digs.len(), seq.len()));
            }
        }
        // the real storage backend behind the recording one (fault-free properties only)
        if prop != "C13" {
            match &fin.real {
                None => {}
                Some(Err(e)) => out.violate(format!("{prop}/real_backend_failed/{:?}", sc.backend), format!("{tag}: finalising the {:?} trace failed: {}", sc.backend, e.chars().take(200).collect::<String>())),
                Some(Ok(d)) => {
                    out.probe("real_backend_traces_finalized", 1);
                    if !aborted && matches!(ex.final_outcome, FinalOutcome::Trace(_)) {
                        if let Some(b) = BASE_REAL.with(|c| c.get()) {
                            if b != *d {
                                out.violate(
                                    format!("{prop}/real_backend_trace_differs_from_uninterrupted_run/{:?}", sc.backend),
                                    format!("{tag}: the {:?} trace of this run (complete, not aborted) differs from the one of the uninterrupted single-core run although the recorded draws are identical", sc.backend),
                                );
                            }
                            out.probe("real_backend_traces_compared", 1);
                        }
                    }
                }
            }
        }
    }
    if prop != "C13" {
        for e in &ex.events {
            if let Some(RecFinal { real: Some(Err(m)), .. }) = &e.inspected {
                out.violate(format!("{prop}/real_backend_inspect_failed/{:?}", sc.backend), format!("{tag}: {}", m.chars().take(200).collect::<String>()));
            }
        }
    }
}

fn expect_clean_final(prop: &str, sc: &SchedScenario, ex: &ExecResult, out: &mut RunOutcome, tag: &str) {
    match (&sc.ending, &ex.final_outcome) {
        (Ending::Abort, FinalOutcome::AbortOk(None, _)) => {}
        (Ending::Abort, FinalOutcome::Trace(_)) => {} // a WaitShort in the script already completed the run
        (Ending::WaitDone | Ending::WaitBlocking, FinalOutcome::Trace(_)) => {}
        (_, f) => {
            let key = match f {
                FinalOutcome::Panic(_) => "caller_panicked",
                FinalOutcome::WaitTimeoutForever => "wait_never_finished",
                FinalOutcome::WaitErr(..) | FinalOutcome::AbortErr(..) | FinalOutcome::AbortOk(Some(_), _) => "error_in_fault_free_run",
                FinalOutcome::NewErr(_) => "sampler_new_failed",
                _ => "unexpected_final_outcome",
            };
            out.violate(format!("{prop}/{key}"), format!("{tag}: {}", short_final(f)));
        }
    }
    for e in &ex.events {
        match &e.result {
            CmdResult::Panic(m) => out.violate(format!("{prop}/command_panicked"), format!("{tag}: {:?}: {m}", e.cmd)),
            CmdResult::Err(m) => out.violate(format!("{prop}/command_failed_in_fault_free_run"), format!("{tag}: {:?}: {m}", e.cmd)),
            _ => {}
        }
    }
}

fn oracle_c10(sc: &SchedScenario, ex: &ExecResult, base: &[Vec<u64>], out: &mut RunOutcome, tag: &str) {
    check_traces("C10", sc, ex, base, out, tag);
    expect_clean_final("C10", sc, ex, out, tag);
    if ex.switches > 4 && !ex.records.is_empty() {
        out.nontrivial = true;
    }
    if sc.script.iter().any(|c| matches!(c, UserCmd::Pause)) {
        out.probe("runs_with_pause", 1);
    }
}

fn oracle_c11(sc: &SchedScenario, ex: &ExecResult, base: &[Vec<u64>], out: &mut RunOutcome, tag: &str) {
    let nc = base.len();
    check_traces("C11", sc, ex, base, out, tag);
    expect_clean_final("C11", sc, ex, out, tag);
    let chains = per_chain(&ex.records, nc);
    let t = total_draws(&sc.preset) as usize;
    // progress snapshots agree with the trace
    let mut check_snapshot = |what: &str, lo_seq: u64, hi_seq: u64, snap: &[ChainProgressRec], out: &mut RunOutcome| {
        if snap.len() != nc {
            out.violate("C11/progress_chain_count", format!("{tag}: {what}: {} entries for {nc} chains", snap.len()));
            return;
        }
        for c in 0..nc {
            let p = &snap[c];
            let before_invoke = chains[c].iter().filter(|r| r.seq < lo_seq).count();
            let before_return = chains[c].iter().filter(|r| r.seq < hi_seq).count();
            // the counter is advanced just before the draw is recorded (both under the chain's trace lock)
            let hi = (before_return + 1).min(t.max(before_return));
            if p.finished_draws < before_invoke || p.finished_draws > hi {
                out.violate(
                    "C11/progress_finished_draws_vs_trace",
                    format!("{tag}: {what}: chain {c} finished_draws={} but {before_invoke} draws were recorded before the call and {before_return} before it returned", p.finished_draws),
                );
                continue;
            }
            if p.total_draws != t {
                out.violate("C11/progress_total_draws", format!("{tag}: {what}: chain {c} total_draws={} expected {t}", p.total_draws));
            }
            let f = p.finished_draws;
            if f <= chains[c].len() {
                let steps: u64 = chains[c][..f].iter().map(|r| r.num_steps).sum();
                let divs: Vec<usize> = chains[c][..f].iter().enumerate().filter(|(_, r)| r.diverging && !r.tuning).map(|(i, _)| i).collect();
                if p.total_num_steps as u64 != steps {
                    out.violate("C11/progress_steps_vs_trace", format!("{tag}: {what}: chain {c} total_num_steps={} but the first {f} recorded draws took {steps}", p.total_num_steps));
                }
                if p.divergences != divs.len() || p.divergent_draws != divs {
                    out.violate(
                        "C11/progress_divergences_vs_trace",
                        format!("{tag}: {what}: chain {c} divergences={} divergent_draws={:?} but the trace has post-warmup divergences at {:?}", p.divergences, p.divergent_draws, divs),
                    );
                }
                if f > 0 && p.tuning != chains[c][f - 1].tuning {
                    out.violate("C11/progress_tuning_vs_trace", format!("{tag}: {what}: chain {c} tuning={} but draw {} was recorded with tuning={}", p.tuning, f - 1, chains[c][f - 1].tuning));
                }
                out.probe("progress_snapshots_checked_exactly", 1);
            }
            if f > 0 && !p.started {
                out.violate("C11/progress_started_flag", format!("{tag}: {what}: chain {c} has {f} finished draws but started=false"));
            }
        }
    };
    for e in &ex.events {
        if let Some(s) = &e.snapshot {
            check_snapshot("progress()", e.invoke, e.ret, s, out);
        }
        if let Some(tr) = &e.inspected {
            // an inspected trace is a per-chain prefix of what ends up recorded
            for (cid, digs) in &tr.chains {
                let c = *cid as usize;
                if c >= nc {
                    continue;
                }
                let seq: Vec<u64> = chains[c].iter().map(|r| r.digest).collect();
                let before_invoke = chains[c].iter().filter(|r| r.seq < e.invoke).count();
                let before_return = chains[c].iter().filter(|r| r.seq < e.ret).count();
                if digs.len() > seq.len() || digs[..] != seq[..digs.len()] || digs.len() < before_invoke || digs.len() > before_return {
                    out.violate("C11/inspect_vs_trace", format!("{tag}: inspect(): chain {c} shows {} draws; {before_invoke} recorded before the call, {before_return} before return", digs.len()));
                }
            }
            out.probe("inspect_snapshots_checked", 1);
        }
    }
    let mut last_seq = 0;
    for (i, (seq, s)) in ex.callback_snapshots.iter().enumerate() {
        // a callback snapshot is taken at one instant between the previous callback and this event
        check_snapshot("progress callback", last_seq, *seq, s, out);
        last_seq = *seq;
        let _ = i;
    }
    // a completed run reports itself finished
    if !was_aborted(sc, ex) && matches!(ex.final_outcome, FinalOutcome::Trace(_)) {
        if let Some((_, s)) = ex.callback_snapshots.last() {
            for (c, p) in s.iter().enumerate() {
                if p.finished_draws != t || p.total_draws != t {
                    out.violate("C11/finished_run_not_reported_finished", format!("{tag}: last progress callback: chain {c} finished_draws={} total_draws={} expected {t}", p.finished_draws, p.total_draws));
                }
            }
            out.probe("final_callback_snapshot_checked", 1);
        }
        if ex.finalized_chains.len() != nc || !ex.trace_finalized {
            out.violate("C11/not_all_chains_finalized", format!("{tag}: finalized chains {:?}, trace finalized {}", ex.finalized_chains, ex.trace_finalized));
        }
    }
    // every invoked command returned (the event list is complete unless the sampler was consumed)
    let expected_events = sc.script.len();
    let consumed_early = ex.events.iter().any(|e| matches!(e.cmd, UserCmd::WaitShort(_)) && e.result != CmdResult::Timeout);
    if ex.events.len() != expected_events && !consumed_early {
        out.violate("C11/command_did_not_return", format!("{tag}: {} of {expected_events} commands returned", ex.events.len()));
    }
    if consumed_early {
        out.probe("commands_after_completion_skipped", 1);
    }
    if was_aborted(sc, ex) {
        out.probe("aborted_runs", 1);
        if ex.records.is_empty() {
            out.probe("abort_before_any_draw", 1);
        }
    }
    out.nontrivial = out.nontrivial || (ex.switches > 4 && (!sc.script.is_empty() || sc.ending == Ending::Abort));
}

/// C15, the sampler's part: a flush() that returned Ok must have reached the storage of every chain after
/// the draws that chain had recorded when flush() was invoked (a chain whose storage was already finalised
/// has written everything). What the backend then does with the call is engine C's subject.
fn oracle_c15_flush(sc: &SchedScenario, ex: &ExecResult, base: &[Vec<u64>], out: &mut RunOutcome, tag: &str) {
    let nc = base.len();
    check_traces("C15", sc, ex, base, out, tag);
    expect_clean_final("C15", sc, ex, out, tag);
    let chains = per_chain(&ex.records, nc);
    let mut n_flush = 0u64;
    for e in &ex.events {
        if e.cmd != UserCmd::Flush || e.result != CmdResult::Ok {
            continue;
        }
        n_flush += 1;
        for c in 0..nc {
            let Some(last) = chains[c].iter().filter(|r| r.seq < e.invoke).map(|r| r.seq).max() else { continue };
            let finalized = ex.finalize_events.iter().any(|(ch, s)| *ch == c as u64 && *s < e.ret);
            let flushed = ex.flush_events.iter().any(|(ch, s)| *ch == c as u64 && *s > last && *s < e.ret);
            if !finalized && !flushed {
                let n_before = chains[c].iter().filter(|r| r.seq < e.invoke).count();
                out.violate(
                    "C15/sampler_flush_did_not_reach_chain".to_string(),
                    format!("{tag}: flush() (events {}..{}) returned Ok, chain {c} had recorded {n_before} draws before it was invoked (last at event {last}), but its storage was not flushed after that draw and before flush() returned (flush calls of this chain at events {:?})", e.invoke, e.ret, ex.flush_events.iter().filter(|(ch, _)| *ch == c as u64).map(|(_, s)| *s).collect::<Vec<_>>()),
                );
                return;
            }
            out.probe("chain_flushes_checked", 1);
        }
    }
    out.probe("user_flush_calls", n_flush);
    out.nontrivial = n_flush > 0 && ex.switches > 4;
}

fn oracle_c12(sc: &SchedScenario, ex: &ExecResult, base: &[Vec<u64>], out: &mut RunOutcome, tag: &str) {
    let nc = base.len();
    check_traces("C12", sc, ex, base, out, tag);
    expect_clean_final("C12", sc, ex, out, tag);
    let chains = per_chain(&ex.records, nc);
    // pause intervals: [pause returned, next resume invoked] (or end of the script)
    let mut resumes_before = 0usize;
    let mut i = 0;
    while i < ex.events.len() {
        let e = &ex.events[i];
        match e.cmd {
            UserCmd::Resume => resumes_before += 1,
            UserCmd::Pause if e.result == CmdResult::Ok => {
                // find the end of the paused interval
                let mut j = i + 1;
                let mut end_seq = ex.final_seq;
                let mut nested_pauses = 0;
                while j < ex.events.len() {
                    match ex.events[j].cmd {
                        UserCmd::Resume => {
                            end_seq = ex.events[j].invoke;
                            break;
                        }
                        UserCmd::Pause => nested_pauses += 1,
                        _ => {}
                    }
                    j += 1;
                }
                if j >= ex.events.len() && sc.ending != Ending::Abort {
                    // the script generator always resumes before waiting; an un-resumed pause at the end
                    // is only legal before abort
                }
                let start_seq = e.ret;
                // commands issued before this pause (each is forwarded to every chain) and when the last one
                // returned: a chain looks at one queued command per draw, so once it has recorded more draws
                // than there were earlier commands since the last of them, none of them is outstanding for it
                // any more ("one when no other command is outstanding")
                let earlier: Vec<&UserEvent> = ex.events[..i].iter().filter(|x| matches!(x.cmd, UserCmd::Pause | UserCmd::Resume)).collect();
                let last_earlier_ret = earlier.iter().map(|x| x.ret).max().unwrap_or(0);
                for c in 0..nc {
                    let n = chains[c].iter().filter(|r| r.seq > start_seq && r.seq < end_seq).count();
                    let since = chains[c].iter().filter(|r| r.seq > last_earlier_ret && r.seq < e.invoke).count();
                    let drained = !earlier.is_empty() && since > earlier.len();
                    let bound = if drained { 1 } else { 1 + resumes_before };
                    if drained {
                        out.probe("pause_intervals_with_drained_queue", 1);
                    }
                    if n > bound && drained && resumes_before > 0 {
                        out.violate(
                            "C12/more_than_one_draw_after_pause_with_no_command_outstanding".to_string(),
                            format!("{tag}: chain {c} recorded {n} draws between the return of pause() (event {start_seq}) and the next resume() (event {end_seq}) although it had recorded {since} draws since the last of the {} earlier commands returned: no command was outstanding for it, bound 1", earlier.len()),
                        );
                        break;
                    }
                    if n > bound {
                        out.violate(
                            if resumes_before == 0 { "C12/more_than_one_draw_after_pause".to_string() } else { "C12/too_many_draws_after_pause".to_string() },
                            format!("{tag}: chain {c} recorded {n} draws between the return of pause() (event {start_seq}) and the next resume() (event {end_seq}); bound {bound} ({resumes_before} earlier resume commands)"),
                        );
                    }
                    if n == 1 {
                        out.probe("chain_finished_one_draw_after_pause", 1);
                    }
                    if n == 0 && chains[c].iter().any(|r| r.seq < start_seq) && chains[c].len() < base[c].len() + 1 && chains[c].iter().any(|r| r.seq > end_seq) {
                        out.probe("chain_stopped_immediately_and_continued", 1);
                    }
                }
                // a chain seen as not started during the pause records nothing until resume
                if resumes_before == 0 {
                    for k in (i + 1)..j.min(ex.events.len()) {
                        if let Some(snap) = &ex.events[k].snapshot {
                            for c in 0..nc.min(snap.len()) {
                                if !snap[c].started {
                                    let n = chains[c].iter().filter(|r| r.seq > ex.events[k].ret && r.seq < end_seq).count();
                                    out.probe("unstarted_chain_observed_during_pause", 1);
                                    if n > 0 {
                                        out.violate("C12/unstarted_chain_drew_while_paused", format!("{tag}: chain {c} was not started when progress() returned during the pause, but recorded {n} draws before resume()"));
                                    }
                                }
                            }
                        }
                    }
                }
                let _ = nested_pauses;
                out.probe("pause_intervals_checked", 1);
                out.nontrivial = true;
            }
            _ => {}
        }
        i += 1;
    }
}

fn oracle_c13(sc: &SchedScenario, ex: &ExecResult, base: &[Vec<u64>], out: &mut RunOutcome, tag: &str) {
    let _ = base;
    // classify which faults fired
    let fatal: Vec<&String> = ex
        .faults_fired
        .iter()
        .filter(|f| {
            f.starts_with("density_unrecoverable_err")
                || f.starts_with("record_err")
                || f.starts_with("flush_err")
                || f.starts_with("chain_finalize_err")
                || f.starts_with("trace_finalize_err")
                || f.starts_with("model_math_fail")
                || f.starts_with("bad_init_first_all")
                || f.starts_with("init_position_err")
                || f.starts_with("new_trace_err")
                || f.starts_with("init_chain_err")
        })
        .collect();
    let inspect_fault = ex.faults_fired.iter().any(|f| f.contains("inspect_err"));
    // never a panic in the caller, whatever fired
    for e in &ex.events {
        if let CmdResult::Panic(m) = &e.result {
            out.violate("C13/caller_panicked_in_command", format!("{tag}: {:?} panicked: {m}; faults fired: {:?}", e.cmd, ex.faults_fired));
        }
    }
    if let FinalOutcome::Panic(m) = &ex.final_outcome {
        let site = if m.starts_with("abort") { "abort" } else if m.starts_with("wait_timeout") { "wait_timeout" } else { "other" };
        out.violate(format!("C13/caller_panicked/{site}"), format!("{tag}: {m}; faults fired: {:?}", ex.faults_fired));
        return;
    }
    if fatal.is_empty() {
        // only recoverable faults (or none reached): the run must complete like a healthy one
        let recoverable_fired = ex.faults_fired.iter().any(|f| f.starts_with("density_") || f.starts_with("bad_init_first"));
        match (&sc.ending, &ex.final_outcome) {
            (Ending::Abort, FinalOutcome::AbortOk(None, _)) | (_, FinalOutcome::Trace(_)) => {
                if recoverable_fired && matches!(ex.final_outcome, FinalOutcome::Trace(_)) {
                    let nc = num_chains(&sc.preset);
                    let t = total_draws(&sc.preset) as usize;
                    let chains = per_chain(&ex.records, nc);
                    if chains.iter().any(|c| c.len() != t) {
                        out.violate("C13/recoverable_fault_terminated_a_chain", format!("{tag}: records per chain {:?}, expected {t}; faults {:?}", chains.iter().map(|c| c.len()).collect::<Vec<_>>(), ex.faults_fired));
                    }
                    out.probe("recoverable_faults_survived", 1);
                    out.nontrivial = true;
                }
            }
            (_, f) => {
                // C13 speaks about recoverable *errors* of the density. A density that returns garbage
                // values (NaN / inf log density or gradient, energy jump) at the start point of the re-run
                // step-size search makes that draw fail with "bad initial gradient"; that is C05's subject
                // (accepted there), not a recoverable error: an Err value is accepted, a panic or hang is not.
                let value_fault = ex.faults_fired.iter().any(|f| f.starts_with("density_") && !f.starts_with("density_recoverable_err") && !f.starts_with("density_unrecoverable_err"));
                let is_err = matches!(f, FinalOutcome::WaitErr(..) | FinalOutcome::AbortErr(..) | FinalOutcome::AbortOk(Some(_), _));
                if value_fault && is_err {
                    out.probe("garbage_value_fault_ended_chain_with_err", 1);
                } else if !inspect_fault || !is_err {
                    out.violate("C13/error_without_fatal_fault", format!("{tag}: final {}; faults fired: {:?}", short_final(f), ex.faults_fired));
                }
            }
        }
        return;
    }
    out.nontrivial = true;
    out.probe("runs_with_fatal_fault_fired", 1);
    // a fatal fault fired: the error must surface as an Err value through wait_timeout (or abort)
    match (&sc.ending, &ex.final_outcome) {
        (_, FinalOutcome::WaitErr(..)) => out.probe("error_surfaced_through_wait_timeout", 1),
        (_, FinalOutcome::NewErr(_)) => out.probe("error_surfaced_through_new", 1),
        (Ending::Abort, FinalOutcome::AbortErr(_)) | (Ending::Abort, FinalOutcome::AbortOk(Some(_), _)) => out.probe("error_surfaced_through_abort", 1),
        (Ending::Abort, FinalOutcome::AbortOk(None, _)) => {
            // abort() does not read the chains' result channel: an error reported by a chain on that
            // channel is only visible through wait_timeout. Not flagged (DESIGN.md §5 C13), counted.
            out.probe("abort_returned_ok_after_chain_error", 1);
        }
        (_, FinalOutcome::Trace(_)) => {
            // which of the fatal faults were swallowed by the initialisation retry loop?
            let retried: Vec<&String> = fatal.iter().copied().filter(|f| ex.faults_fired.iter().any(|r| r == &format!("retried_after_{f}"))).collect();
            let class = if retried.len() == fatal.len() { "unrecoverable_logp_error_during_initialisation_is_retried" } else { "other" };
            out.violate(format!("C13/success_reported_after_fatal_fault/{class}"), format!("{tag}: wait_timeout returned Trace although these faults fired: {:?}", fatal));
        }
        (_, FinalOutcome::WaitTimeoutForever) => {
            out.violate("C13/hang_after_fatal_fault", format!("{tag}: wait_timeout kept timing out; faults fired: {:?}", fatal));
        }
        (_, f) => {
            out.violate("C13/unexpected_outcome_after_fatal_fault", format!("{tag}: {}; faults fired: {:?}", short_final(f), fatal));
        }
    }
}
