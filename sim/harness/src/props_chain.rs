//! Engine-A properties decided on recorded chain histories through the public API:
//! C06 (warmup boundary / frozen kernel), C16 (schema vs. per-draw values).

use nuts_rs::{ItemType, StepSizeAdaptMethod, Value};
use serde::{Deserialize, Serialize};
use serde_json::{Value as J, json};

use crate::chain::{CallResult, ChainCfg, DrawRec, History, Preset, run_chain};
use crate::driver::{RunOutcome, Scenario};
use crate::swarm::shrink_chain_cfg;

#[derive(Clone, Debug, Serialize, Deserialize)]
pub struct ChainScenario {
    pub prop: String,
    pub cfg: ChainCfg,
    /// inject a recoverable-class fault at every density evaluation of the fault-free run in turn (strided
    /// beyond 160 positions) and judge every resulting history
    #[serde(default)]
    pub enumerate_faults: bool,
}

impl Scenario for ChainScenario {
    fn run(&self) -> RunOutcome {
        if self.enumerate_faults {
            return self.run_enumeration();
        }
        let hist = run_chain(&self.cfg);
        let mut out = RunOutcome {
            digest: hist.digest(),
            sim_draws: hist.draws.len() as u64,
            sim_evals: hist.n_evals,
            ..Default::default()
        };
        out.probe(&format!("preset_{}", self.cfg.preset.name()), 1);
        if hist.budget_exhausted {
            out.probe("evaluation_budget_exhausted", 1);
        }
        for (_, k) in &hist.faults_fired {
            out.probe(&format!("fault_fired_{}", k.name()), 1);
        }
        match self.prop.as_str() {
            "C06" => check_c06(&self.cfg, &hist, &mut out),
            "C16" => check_c16(&self.cfg, &hist, &mut out),
            other => crate::driver::harness_error(&format!("ChainScenario: unknown property {other}")),
        }
        out
    }

    fn shrink_with_hint(&self, hint: &Option<J>) -> Vec<Self> {
        if self.enumerate_faults {
            if let Some(h) = hint {
                if let Ok(faults) = serde_json::from_value::<Vec<crate::density::Fault>>(h["faults"].clone()) {
                    let mut c = self.cfg.clone();
                    c.faults = faults;
                    return vec![ChainScenario { prop: self.prop.clone(), cfg: c, enumerate_faults: false }];
                }
            }
            return vec![];
        }
        self.shrink()
    }

    fn shrink(&self) -> Vec<Self> {
        let mut v: Vec<ChainScenario> = shrink_chain_cfg(&self.cfg)
            .into_iter()
            .map(|cfg| ChainScenario { prop: self.prop.clone(), cfg, enumerate_faults: false })
            .collect();
        if self.prop == "C06" {
            // smaller warmup (keeps the relation of calls to num_tune)
            let nt = self.cfg.preset.num_tune();
            for k in [0, nt / 2, nt.saturating_sub(1)] {
                if k < nt {
                    let mut c = self.cfg.clone();
                    c.preset.set_num_tune(k);
                    c.n_calls = k + c.preset.num_draws();
                    v.push(ChainScenario { prop: self.prop.clone(), cfg: c, enumerate_faults: false });
                }
            }
        }
        v
    }

    fn describe(&self) -> J {
        json!({
            "preset": self.cfg.preset.name(),
            "num_tune": self.cfg.preset.num_tune(),
            "num_draws": self.cfg.preset.num_draws(),
            "dim": self.cfg.target.dim(),
            "target": format!("{:?}", self.cfg.target).chars().take(160).collect::<String>(),
            "faults": self.cfg.faults,
            "settings": serde_json::to_value(&self.cfg.preset).unwrap_or(J::Null),
        })
    }
}

impl ChainScenario {
    fn run_enumeration(&self) -> RunOutcome {
        use crate::density::{Fault, FaultKind};
        let mut base = self.cfg.clone();
        base.faults.clear();
        let dry = run_chain(&base);
        let mut out = RunOutcome { digest: dry.digest(), sim_draws: dry.draws.len() as u64, sim_evals: dry.n_evals, ..Default::default() };
        let mut dg = crate::prng::Digest::new();
        dg.u64(dry.digest());
        out.probe(&format!("preset_{}", self.cfg.preset.name()), 1);
        if dry.new_chain != CallResult::Ok || dry.set_position != CallResult::Ok || dry.failed_call.is_some() || dry.budget_exhausted {
            out.probe("enumeration_base_run_not_clean", 1);
            return out;
        }
        let n = dry.n_evals;
        let stride = (n / 160).max(1);
        let mut k = dry.set_position_evals.1;
        let mut positions = 0u64;
        while k < n {
            for kind in [FaultKind::RecoverableErr, FaultKind::EnergyJump] {
                let mut c = base.clone();
                c.faults = vec![Fault { at: k, kind }];
                let h = run_chain(&c);
                dg.u64(h.digest());
                out.sim_draws += h.draws.len() as u64;
                out.sim_evals += h.n_evals;
                let before = out.violations.len();
                match self.prop.as_str() {
                    "C06" => check_c06(&c, &h, &mut out),
                    "C16" => check_c16(&c, &h, &mut out),
                    other => crate::driver::harness_error(&format!("ChainScenario: unknown property {other}")),
                }
                for v in out.violations[before..].iter_mut() {
                    v.detail = format!("fault {} at evaluation {k}: {}", kind.name(), v.detail);
                    v.hint = Some(json!({"faults": [{"at": k, "kind": kind}]}));
                }
                positions += 1;
            }
            k += stride;
        }
        out.probe("fault_positions_enumerated", positions);
        out.nontrivial = positions > 0;
        out.digest = dg.0;
        out
    }
}

// ------------------------------------------------------------------------------------------------

pub struct StepInfo {
    pub jitter: Option<f64>,
    pub method: StepSizeAdaptMethod,
    pub final_window_start: u64,
}

pub fn step_info(p: &Preset) -> StepInfo {
    fn euclid_fws(nt: u64, ssw: f64) -> u64 {
        nt.saturating_sub((ssw * nt as f64) as u64)
    }
    fn flow_fws(nt: u64, ssw: f64) -> u64 {
        ((nt as f64) * (1.0 - ssw)).floor() as u64
    }
    match p {
        Preset::DiagNuts(s) => StepInfo {
            jitter: s.adapt_options.step_size_settings.jitter,
            method: s.adapt_options.step_size_settings.adapt_options.method,
            final_window_start: euclid_fws(s.num_tune, s.adapt_options.step_size_window),
        },
        Preset::LowRankNuts(s) => StepInfo {
            jitter: s.adapt_options.step_size_settings.jitter,
            method: s.adapt_options.step_size_settings.adapt_options.method,
            final_window_start: euclid_fws(s.num_tune, s.adapt_options.step_size_window),
        },
        Preset::FlowNuts(s) => StepInfo {
            jitter: s.adapt_options.step_size_settings.jitter,
            method: s.adapt_options.step_size_settings.adapt_options.method,
            final_window_start: flow_fws(s.num_tune, s.adapt_options.step_size_window),
        },
        Preset::DiagMclmc(s) => StepInfo {
            jitter: s.adapt_options.step_size_settings.jitter,
            method: StepSizeAdaptMethod::Fixed(s.step_size),
            final_window_start: euclid_fws(s.num_tune, s.adapt_options.step_size_window),
        },
        Preset::LowRankMclmc(s) => StepInfo {
            jitter: s.adapt_options.step_size_settings.jitter,
            method: StepSizeAdaptMethod::Fixed(s.step_size),
            final_window_start: euclid_fws(s.num_tune, s.adapt_options.step_size_window),
        },
        Preset::FlowMclmc(s) => StepInfo {
            jitter: s.adapt_options.step_size_settings.jitter,
            method: s.adapt_options.step_size_settings.adapt_options.method,
            final_window_start: flow_fws(s.num_tune, s.adapt_options.step_size_window),
        },
    }
}

fn input_class(cfg: &ChainCfg) -> String {
    let nt = cfg.preset.num_tune();
    let ntc = if nt == 0 { "num_tune=0" } else { "num_tune>0" };
    format!("{}/{}", if cfg.preset.is_nuts() { "nuts" } else { "mclmc" }, ntc)
}

fn short(s: &str) -> String {
    s.chars().take(200).collect()
}

/// C06 — warmup ends exactly at num_tune; kernel frozen afterwards; any num_tune builds a working chain.
pub fn check_c06(cfg: &ChainCfg, h: &History, out: &mut RunOutcome) {
    let nt = cfg.preset.num_tune();
    let class = input_class(cfg);
    let fault_free = cfg.faults.is_empty();
    // "Any num_tune >= 0 yields a working chain": construction and every call must not panic; without
    // injected faults on these targets no call may fail either.
    if let CallResult::Panic(m) = &h.new_chain {
        out.violate(format!("C06/new_chain_panic/{class}"), format!("Settings::new_chain panicked: {}", short(m)));
        return;
    }
    match &h.set_position {
        CallResult::Panic(m) => {
            out.violate(format!("C06/set_position_panic/{class}"), short(m));
            return;
        }
        CallResult::Err(e) => {
            // a flat coordinate has a zero gradient at the start, which init_state legitimately rejects
            let benign = matches!(cfg.target, crate::density::Target::FlatCoord { .. });
            if fault_free && !benign {
                out.violate(format!("C06/set_position_err/{class}"), short(e));
            }
            return;
        }
        CallResult::Ok => {}
    }
    if let Some((i, r, _)) = &h.failed_call {
        match r {
            CallResult::Panic(m) => out.violate(format!("C06/draw_panic/{class}"), format!("draw {i}: {}", short(m))),
            CallResult::Err(e) => {
                if fault_free && !h.budget_exhausted {
                    out.violate(format!("C06/draw_err/{class}"), format!("draw {i}: {}", short(e)))
                }
            }
            CallResult::Ok => {}
        }
    }
    let si = step_info(&cfg.preset);
    let n = h.draws.len() as u64;
    out.nontrivial = n > nt && nt > 0;
    if nt == 0 && n > 0 {
        out.probe("num_tune_zero_chain_ran", 1);
    }
    if n > nt {
        out.probe("crossed_warmup_boundary", 1);
    }
    // (a) tuning flags
    for (i, d) in h.draws.iter().enumerate() {
        let i = i as u64;
        let expect = i < nt;
        if d.progress.tuning != expect {
            out.violate(
                format!("C06/progress_tuning_flag/{}", if cfg.preset.is_nuts() { "nuts" } else { "mclmc" }),
                format!("draw {i}: Progress.tuning={} but num_tune={nt}", d.progress.tuning),
            );
            break;
        }
        if let Some(t) = d.bool("tuning") {
            if t != expect {
                out.violate(
                    format!("C06/stat_tuning_flag/{}", if cfg.preset.is_nuts() { "nuts" } else { "mclmc" }),
                    format!("draw {i}: stat tuning={t} but num_tune={nt}"),
                );
                break;
            }
        }
        if d.progress.draw != i {
            out.violate("C06/draw_counter", format!("draw {i}: Progress.draw={}", d.progress.draw));
            break;
        }
    }
    // (b) transformation frozen from the final step-size window onward
    let fws = si.final_window_start.min(nt);
    let mut frozen_checked = 0;
    for i in 0..h.draws.len() {
        let d = &h.draws[i];
        let iu = i as u64;
        if iu >= fws {
            if iu > 0 && d.stat("transformation_update_id").is_some() {
                out.violate(
                    "C06/transformation_update_in_final_window",
                    format!("draw {iu}: transformation_update_id={:?} but the final step-size window starts at {fws} (num_tune={nt})", d.i64("transformation_update_id")),
                );
                break;
            }
            if i + 1 < h.draws.len() {
                let a = d.i64("transformation_index");
                let b = h.draws[i + 1].i64("transformation_index");
                if a.is_some() && b.is_some() {
                    frozen_checked += 1;
                    if a != b {
                        out.violate(
                            "C06/transformation_index_changed_in_final_window",
                            format!("transformation_index {a:?} at draw {iu} -> {b:?} at draw {} (final window starts at {fws}, num_tune={nt})", iu + 1),
                        );
                        break;
                    }
                }
            }
        } else if iu > 0 && d.stat("transformation_update_id").is_some() {
            out.probe("transformation_update_before_final_window", 1);
        }
    }
    out.probe("frozen_pairs_checked", frozen_checked);
    // (c) constant base step size after warmup, step sizes in the jitter band
    // A run in which no draw made a single leapfrog step (maxdepth 0, or a model without parameters) has no
    // acceptance statistic at all (0/0): the step size is never used and what the estimators make of the
    // undefined statistic is outside the property's quantifier ("all acceptance histories") - not judged.
    let no_leapfrog = !h.draws.is_empty() && h.draws.iter().all(|d| d.progress.num_steps == 0);
    if no_leapfrog {
        out.probe("run_without_any_leapfrog_step_size_not_judged", 1);
    }
    if n > nt && !no_leapfrog {
        let first_post = nt as usize;
        let sbar = h.draws[first_post].f64("step_size_bar");
        if let Some(sbar) = sbar {
            if !(sbar.is_finite() && sbar > 0.0) {
                out.violate("C06/step_size_bar_invalid", format!("step_size_bar={sbar} after warmup"));
            }
            if nt > 0 {
                let prev = h.draws[first_post - 1].f64("step_size_bar").unwrap_or(sbar);
                if prev.to_bits() != sbar.to_bits() {
                    out.violate(
                        "C06/step_size_bar_moved_at_boundary",
                        format!("step_size_bar {prev:e} at last warmup draw, {sbar:e} at first sampling draw"),
                    );
                }
            }
            if let StepSizeAdaptMethod::Fixed(v) = si.method {
                if sbar.to_bits() != v.to_bits() {
                    out.violate("C06/fixed_step_size_not_used", format!("fixed step {v:e}, reported step_size_bar {sbar:e}"));
                }
            }
            let from = if nt > 0 { first_post - 1 } else { first_post };
            for i in from..h.draws.len() {
                let d = &h.draws[i];
                if i >= first_post {
                    let b = d.f64("step_size_bar").unwrap_or(sbar);
                    if b.to_bits() != sbar.to_bits() {
                        out.violate("C06/step_size_bar_changed_after_warmup", format!("draw {i}: step_size_bar {b:e} != {sbar:e}"));
                        break;
                    }
                }
                let ss = [("progress", Some(d.progress.step_size)), ("stat", d.f64("step_size"))];
                let mut bad = false;
                for (which, s) in ss {
                    let Some(s) = s else { continue };
                    let ok = match si.jitter {
                        None => s.to_bits() == sbar.to_bits(),
                        Some(j) => {
                            let lo = sbar * (1.0 - j) * (1.0 - 1e-12);
                            let hi = sbar * (1.0 + j) * (1.0 + 1e-12);
                            s >= lo && s <= hi
                        }
                    };
                    if !ok {
                        let which_draw = if i < first_post { "last_warmup_draw" } else { "sampling_draw" };
                        let fw = if fws >= nt { "final_window_empty" } else { "final_window_nonempty" };
                        out.violate(
                            format!("C06/step_size_outside_jitter_band/{which_draw}/{fw}"),
                            format!("draw {i} ({which}): step_size {s:e}, step_size_bar {sbar:e}, jitter {:?}", si.jitter),
                        );
                        bad = true;
                        break;
                    }
                }
                if bad {
                    break;
                }
                out.probe("post_warmup_step_sizes_checked", 1);
            }
        }
    }
}

// ------------------------------------------------------------------------------------------------

fn value_matches(v: &Value, t: ItemType) -> (bool, usize, bool) {
    // (type ok, length, is_scalar_variant)
    match (v, t) {
        (Value::ScalarU64(_), ItemType::U64) => (true, 1, true),
        (Value::U64(x), ItemType::U64) => (true, x.len(), false),
        (Value::ScalarI64(_), ItemType::I64) => (true, 1, true),
        (Value::I64(x), ItemType::I64) => (true, x.len(), false),
        (Value::ScalarF64(_), ItemType::F64) => (true, 1, true),
        (Value::F64(x), ItemType::F64) => (true, x.len(), false),
        (Value::ScalarF32(_), ItemType::F32) => (true, 1, true),
        (Value::F32(x), ItemType::F32) => (true, x.len(), false),
        (Value::ScalarBool(_), ItemType::Bool) => (true, 1, true),
        (Value::Bool(x), ItemType::Bool) => (true, x.len(), false),
        (Value::ScalarString(_), ItemType::String) => (true, 1, true),
        (Value::Strings(x), ItemType::String) => (true, x.len(), false),
        (Value::DateTime64(u, x), ItemType::DateTime64(u2)) => (*u == u2, x.len(), false),
        (Value::TimeDelta64(u, x), ItemType::TimeDelta64(u2)) => (*u == u2, x.len(), false),
        _ => (false, 0, false),
    }
}

/// C16 — schema and per-draw values mutually consistent.
pub fn check_c16(cfg: &ChainCfg, h: &History, out: &mut RunOutcome) {
    let Some(schema) = &h.schema else {
        out.violate("C16/schema_panic", "Settings::stat_* panicked");
        return;
    };
    if h.new_chain != CallResult::Ok || h.set_position != CallResult::Ok {
        return;
    }
    let pname = cfg.preset.name();
    // "exactly the declared names": a name declared twice cannot be told apart by any name-keyed consumer
    for (i, n) in schema.names.iter().enumerate() {
        if schema.names[..i].contains(n) {
            out.violate(format!("C16/duplicate_stat_name/{pname}/{n}"), format!("statistic '{n}' is declared {} times in stat_names", schema.names.iter().filter(|x| *x == n).count()));
            return;
        }
    }
    let mut always_present: std::collections::BTreeMap<String, (u64, u64)> = Default::default(); // present, absent
    let mut prev_draw: Option<u64> = None;
    let mut chain_id: Option<u64> = None;
    let mut n_div = 0u64;
    let mut n_upd = 0u64;
    for (i, d) in h.draws.iter().enumerate() {
        // names and order
        let names: Vec<&String> = d.stats.iter().map(|(n, _)| n).collect();
        if names.len() != schema.names.len() || names.iter().zip(&schema.names).any(|(a, b)| *a != b) {
            out.violate(format!("C16/names_differ/{pname}"), format!("draw {i}: get_all names {:?} vs stat_names {:?}", names, schema.names));
            return;
        }
        for (k, (name, v)) in d.stats.iter().enumerate() {
            let ty = schema.types[k].1;
            let dims = &schema.dims[k].1;
            let ev = &schema.event_dims[k].1;
            if schema.types[k].0 != *name || schema.dims[k].0 != *name || schema.event_dims[k].0 != *name {
                out.violate(format!("C16/schema_order/{pname}"), format!("schema lists disagree at position {k}: {name}"));
                return;
            }
            let expect_len: u64 = dims.iter().map(|dn| schema.dim_sizes.get(dn).copied().unwrap_or(u64::MAX)).product();
            if dims.iter().any(|dn| !schema.dim_sizes.contains_key(dn)) {
                out.violate(format!("C16/unknown_dim/{pname}/{name}"), format!("dims {:?} not in dim_sizes", dims));
                return;
            }
            match v {
                Some(v) => {
                    let (ok, len, scalar) = value_matches(v, ty);
                    if !ok {
                        out.violate(format!("C16/type_mismatch/{pname}/{name}"), format!("draw {i}: value {:?} declared {:?}", v, ty));
                        return;
                    }
                    if dims.is_empty() && !(scalar || len == 1) {
                        out.violate(format!("C16/scalar_shape/{pname}/{name}"), format!("draw {i}: declared scalar, got length {len}"));
                        return;
                    }
                    if !dims.is_empty() && (scalar && expect_len != 1 || !scalar && len as u64 != expect_len) {
                        out.violate(format!("C16/length_mismatch/{pname}/{name}"), format!("draw {i}: length {len}, declared dims {:?} => {expect_len}", dims));
                        return;
                    }
                    if ev.is_none() {
                        always_present.entry(name.clone()).or_default().0 += 1;
                    }
                }
                None => {
                    if ev.is_none() {
                        always_present.entry(name.clone()).or_default().1 += 1;
                    }
                }
            }
        }
        // counters
        if let Some(dr) = d.u64("draw") {
            // NUTS reports the count after the draw, MCLMC too (draw_count was incremented): only demand +1 steps
            if let Some(p) = prev_draw {
                if dr != p + 1 {
                    out.violate(format!("C16/draw_counter_step/{pname}"), format!("draw stat {p} -> {dr} at call {i}"));
                    return;
                }
            }
            prev_draw = Some(dr);
        } else {
            out.violate(format!("C16/draw_stat_missing/{pname}"), format!("call {i}"));
            return;
        }
        match (chain_id, d.u64("chain")) {
            (None, Some(c)) => chain_id = Some(c),
            (Some(a), Some(c)) if a != c => {
                out.violate(format!("C16/chain_id_changed/{pname}"), format!("{a} -> {c}"));
                return;
            }
            (_, None) => {
                out.violate(format!("C16/chain_stat_missing/{pname}"), format!("call {i}"));
                return;
            }
            _ => {}
        }
        if chain_id != Some(cfg.chain_id) {
            out.violate(format!("C16/chain_id_wrong/{pname}"), format!("configured {}, reported {:?}", cfg.chain_id, chain_id));
            return;
        }
        // divergence event consistency
        let diverging = d.bool("diverging").unwrap_or(false);
        if d.bool("diverging").is_none() {
            out.violate(format!("C16/diverging_missing/{pname}"), format!("call {i}"));
            return;
        }
        if diverging != d.progress.diverging {
            out.violate(format!("C16/diverging_flag_vs_progress/{pname}"), format!("call {i}: stat {diverging} progress {}", d.progress.diverging));
            return;
        }
        if diverging {
            n_div += 1;
        }
        for (k, (name, v)) in d.stats.iter().enumerate() {
            match schema.event_dims[k].1.as_deref() {
                Some("divergence") => {
                    let identifying = name == "divergence_draw" || name == "divergence_message";
                    if v.is_some() && !diverging {
                        out.violate(format!("C16/divergence_field_on_nondivergent_draw/{pname}/{name}"), format!("call {i}"));
                        return;
                    }
                    if identifying && diverging && v.is_none() {
                        out.violate(format!("C16/divergence_id_field_missing/{pname}/{name}"), format!("call {i}"));
                        return;
                    }
                }
                Some("transformation_update") => {}
                Some(other) => {
                    out.violate(format!("C16/unknown_event_dim/{pname}/{other}"), name.clone());
                    return;
                }
                None => {}
            }
        }
        // transformation update event: fields exactly on draws after which the transformation changed
        let has_upd_field = schema.names.iter().any(|n| n == "transformation_update_id");
        if has_upd_field {
            let upd = d.stat("transformation_update_id").is_some();
            if upd {
                n_upd += 1;
            }
            for (k, (name, v)) in d.stats.iter().enumerate() {
                if schema.event_dims[k].1.as_deref() == Some("transformation_update") && v.is_some() && !upd {
                    out.violate(format!("C16/update_field_without_update_id/{pname}/{name}"), format!("call {i}"));
                    return;
                }
            }
            let reinit_before_next = cfg.reinit_at == Some(i as u64 + 1);
            let reinit_before_this = cfg.reinit_at == Some(i as u64) && i > 0;
            if reinit_before_this && !upd {
                out.violate(format!("C16/reinit_transformation_not_reported/{pname}"), format!("draw {i}: set_position rebuilt the transformation before this draw but no transformation_update_id was reported"));
                return;
            }
            if i == 0 && !upd {
                out.violate(format!("C16/initial_transformation_not_reported/{pname}"), "draw 0 has no transformation_update_id");
                return;
            }
            if i + 1 < h.draws.len() {
                let a = d.i64("transformation_index");
                let b = h.draws[i + 1].i64("transformation_index");
                if let (Some(a), Some(b)) = (a, b) {
                    // index(n+1) is the transformation in force during trajectory n+1, i.e. after adapt of draw n
                    if reinit_before_next || reinit_before_this {
                        // the transformation was rebuilt by set_position between two draws: the event is
                        // reported on the draw after the re-initialisation (checked above)
                        out.probe("reinit_points_checked", 1);
                    } else if i > 0 && (a != b) != upd {
                        out.violate(
                            format!("C16/update_event_vs_index/{pname}"),
                            format!("draw {i}: transformation_update_id present={upd}, transformation_index {a} -> {b}"),
                        );
                        return;
                    }
                    if i == 0 && a != b && !upd {
                        out.violate(format!("C16/update_event_vs_index/{pname}"), format!("draw 0: index {a} -> {b} without event"));
                        return;
                    }
                }
            }
        }
    }
    for (name, (p, a)) in &always_present {
        if *p > 0 && *a > 0 {
            out.violate(format!("C16/non_event_stat_sometimes_missing/{pname}/{name}"), format!("present on {p} draws, absent on {a}"));
        }
    }
    out.probe("divergent_draws", n_div);
    out.probe("transformation_update_events", n_upd);
    out.nontrivial = !h.draws.is_empty() && (n_div > 0 || n_upd > 1);
}

#[allow(dead_code)]
fn _unused(_: &DrawRec) {}
