//! Engine C ("storesim"): the real storage backends driven through the storage traits with histories
//! produced by real chains, compared with a recording model. Zarr stores are wrapped in a fault /
//! snapshot store (crash points).

use std::collections::{BTreeMap, HashMap};
use std::panic::{AssertUnwindSafe, catch_unwind};
use std::sync::{Arc, Mutex};

use anyhow::Result;
use nuts_rs::verif::{ChainStorage, StatsDims, StorageConfig, TraceStorage};
use nuts_rs::{Chain, CpuMath, ItemType, Progress, Settings, Storable, Value};
use serde::{Deserialize, Serialize};
use serde_json::{Value as J, json};

use crate::chain::{Preset, panic_message};
use crate::density::{Fault, SimDensity, Target, VarSpec, VarType, new_log};
use crate::driver::{RunOutcome, Scenario};
use crate::prng::{Digest, Prng, RandAdapter};

#[derive(Clone, Debug, Serialize, Deserialize, PartialEq, Eq, Hash)]
pub enum Backend {
    HashMap,
    Ndarray,
    Arrow,
    Csv,
    ZarrSync,
    ZarrAsync,
}

impl Backend {
    pub fn name(&self) -> &'static str {
        match self {
            Backend::HashMap => "hashmap",
            Backend::Ndarray => "ndarray",
            Backend::Arrow => "arrow",
            Backend::Csv => "csv",
            Backend::ZarrSync => "zarr_sync",
            Backend::ZarrAsync => "zarr_async",
        }
    }
}

#[derive(Clone, Debug, Serialize, Deserialize)]
pub struct StoreScenario {
    pub prop: String,
    pub preset: Preset,
    pub target: Target,
    pub vars: Vec<VarSpec>,
    pub extra_dims: Vec<(String, u64)>,
    pub density_faults: Vec<Fault>,
    pub chain_seed: u64,
    pub backends: Vec<Backend>,
    pub chunk_size: u64,
    pub store_warmup: bool,
    /// seed of the interleaving of chains and of flush / inspect placement
    pub ops_seed: u64,
    /// record only this many draws per chain (aborted run), None = all
    pub prefix: Option<u64>,
    pub flush_prob: f64,
    pub inspect_prob: f64,
    /// C15: use a filesystem store instead of the in-memory store
    pub filesystem: bool,
    /// C15: fail the k-th store write (None = no fault)
    pub fail_write: Option<u64>,
    /// fail the k-th store write counted from the last one of the fault-free run (a dry run counts them)
    #[serde(default)]
    pub fail_write_from_end: Option<u64>,
    /// C15: keep a snapshot of the (in-memory) store after every single store write and demand of each that the
    /// prefixes acknowledged by the flushes that had returned by then are intact (crash between two store writes)
    #[serde(default)]
    pub crash_every_write: bool,
}

/// One recorded draw as it was handed to the backend.
#[derive(Clone)]
pub struct Rec {
    pub stats: Vec<(String, Option<Value>)>,
    pub draws: Vec<(String, Option<Value>)>,
    pub progress: Progress,
}

pub struct Histories {
    pub chains: Vec<Vec<Rec>>,
    pub stat_types: Vec<(String, ItemType)>,
    pub stat_event_dims: Vec<(String, Option<String>)>,
    pub data_types: Vec<(String, ItemType)>,
}

fn owned(v: Vec<(&str, Option<Value>)>) -> Vec<(String, Option<Value>)> {
    v.into_iter().map(|(n, v)| (n.to_string(), v)).collect()
}

pub fn make_density(sc: &StoreScenario) -> SimDensity {
    let mut d = SimDensity::new(sc.target.clone(), sc.density_faults.clone(), new_log(false));
    d.vars = Arc::new(sc.vars.clone());
    d.extra_dims = Arc::new(sc.extra_dims.clone());
    d
}

fn gen_histories<S: Settings>(settings: &S, sc: &StoreScenario) -> std::result::Result<Histories, String> {
    let nc = settings.num_chains();
    let total = (settings.hint_num_tune() + settings.hint_num_draws()) as u64;
    let n_calls = sc.prefix.map(|p| p.min(total)).unwrap_or(total);
    let math0 = CpuMath::new(make_density(sc));
    let mut h = Histories {
        chains: vec![],
        stat_types: settings.stat_types(&math0),
        stat_event_dims: settings.stat_event_dims(&math0),
        data_types: settings.data_types(&math0),
    };
    for c in 0..nc {
        let math = CpuMath::new(make_density(sc));
        let mut rng = RandAdapter(Prng::new(crate::prng::splitmix64(sc.chain_seed ^ c as u64)));
        let mut chain = settings.new_chain(c as u64, math, &mut rng);
        let d = sc.target.dim();
        let mut r = Prng::new(crate::prng::splitmix64(sc.chain_seed ^ 0xabc ^ c as u64));
        let init: Vec<f64> = (0..d).map(|_| r.uniform(-1.0, 1.0)).collect();
        chain.set_position(&init).map_err(|e| format!("set_position: {e:#}"))?;
        let mut recs = vec![];
        for _ in 0..n_calls {
            let (_pos, mut expanded, mut stats, progress) = chain.expanded_draw().map_err(|e| format!("draw: {e:#}"))?;
            let math = chain.math();
            let dims = StatsDims::from(&*math);
            let s = owned(stats.get_all(&dims));
            let dr = owned(expanded.get_all(&*math));
            recs.push(Rec { stats: s, draws: dr, progress });
        }
        h.chains.push(recs);
    }
    Ok(h)
}

// ------------------------------------------------------------------------------------------------
// canonical columns

#[derive(Clone, Debug, PartialEq)]
pub enum Col {
    F64(Vec<u64>), // bit patterns (NaN payloads are not compared: canonical NaN)
    F32(Vec<u32>),
    I64(Vec<i64>),
    U64(Vec<u64>),
    Bool(Vec<bool>),
    Str(Vec<String>),
}

fn canon_f64(x: f64) -> u64 {
    if x.is_nan() { f64::NAN.to_bits() } else { x.to_bits() }
}
fn canon_f32(x: f32) -> u32 {
    if x.is_nan() { f32::NAN.to_bits() } else { x.to_bits() }
}

impl Col {
    pub fn new(t: ItemType) -> Col {
        match t {
            ItemType::F64 => Col::F64(vec![]),
            ItemType::F32 => Col::F32(vec![]),
            ItemType::I64 | ItemType::DateTime64(_) | ItemType::TimeDelta64(_) => Col::I64(vec![]),
            ItemType::U64 => Col::U64(vec![]),
            ItemType::Bool => Col::Bool(vec![]),
            ItemType::String => Col::Str(vec![]),
        }
    }
    pub fn push_value(&mut self, v: &Value) -> bool {
        match (self, v) {
            (Col::F64(c), Value::ScalarF64(x)) => c.push(canon_f64(*x)),
            (Col::F64(c), Value::F64(x)) => c.extend(x.iter().map(|x| canon_f64(*x))),
            (Col::F32(c), Value::ScalarF32(x)) => c.push(canon_f32(*x)),
            (Col::F32(c), Value::F32(x)) => c.extend(x.iter().map(|x| canon_f32(*x))),
            (Col::I64(c), Value::ScalarI64(x)) => c.push(*x),
            (Col::I64(c), Value::I64(x)) => c.extend(x),
            (Col::U64(c), Value::ScalarU64(x)) => c.push(*x),
            (Col::U64(c), Value::U64(x)) => c.extend(x),
            (Col::Bool(c), Value::ScalarBool(x)) => c.push(*x),
            (Col::Bool(c), Value::Bool(x)) => c.extend(x),
            (Col::Str(c), Value::ScalarString(x)) => c.push(x.clone()),
            (Col::Str(c), Value::Strings(x)) => c.extend(x.iter().cloned()),
            _ => return false,
        }
        true
    }
    pub fn len(&self) -> usize {
        match self {
            Col::F64(c) => c.len(),
            Col::F32(c) => c.len(),
            Col::I64(c) => c.len(),
            Col::U64(c) => c.len(),
            Col::Bool(c) => c.len(),
            Col::Str(c) => c.len(),
        }
    }
    pub fn is_prefix_of(&self, other: &Col) -> bool {
        match (self, other) {
            (Col::F64(a), Col::F64(b)) => a.len() <= b.len() && a[..] == b[..a.len()],
            (Col::F32(a), Col::F32(b)) => a.len() <= b.len() && a[..] == b[..a.len()],
            (Col::I64(a), Col::I64(b)) => a.len() <= b.len() && a[..] == b[..a.len()],
            (Col::U64(a), Col::U64(b)) => a.len() <= b.len() && a[..] == b[..a.len()],
            (Col::Bool(a), Col::Bool(b)) => a.len() <= b.len() && a[..] == b[..a.len()],
            (Col::Str(a), Col::Str(b)) => a.len() <= b.len() && a[..] == b[..a.len()],
            _ => false,
        }
    }
    pub fn truncate(&mut self, n: usize) {
        match self {
            Col::F64(c) => c.truncate(n),
            Col::F32(c) => c.truncate(n),
            Col::I64(c) => c.truncate(n),
            Col::U64(c) => c.truncate(n),
            Col::Bool(c) => c.truncate(n),
            Col::Str(c) => c.truncate(n),
        }
    }
    pub fn kind(&self) -> &'static str {
        match self {
            Col::F64(_) => "f64",
            Col::F32(_) => "f32",
            Col::I64(_) => "i64",
            Col::U64(_) => "u64",
            Col::Bool(_) => "bool",
            Col::Str(_) => "str",
        }
    }
}

/// key: (chain, group ("stats"/"draws"), phase ("warmup"/"sample"/"all"), name)
pub type Canon = BTreeMap<(usize, &'static str, &'static str, String), Col>;

pub struct ModelOpts {
    pub skip_draw_chain: bool,
    pub split_phases: bool,
    pub store_warmup: bool,
}

/// Expected canonical content for the first `upto[c]` records of each chain.
pub fn model_canon(h: &Histories, upto: &[usize], o: &ModelOpts) -> Canon {
    let mut m: Canon = BTreeMap::new();
    for (c, recs) in h.chains.iter().enumerate() {
        for phase in if o.split_phases { vec!["warmup", "sample"] } else { vec!["all"] } {
            for (name, t) in &h.stat_types {
                if o.skip_draw_chain && (name == "draw" || name == "chain") {
                    continue;
                }
                m.insert((c, "stats", phase, name.clone()), Col::new(*t));
            }
            for (name, t) in &h.data_types {
                if o.skip_draw_chain && (name == "draw" || name == "chain") {
                    continue;
                }
                m.insert((c, "draws", phase, name.clone()), Col::new(*t));
            }
        }
        for r in recs.iter().take(upto[c]) {
            if r.progress.tuning && !o.store_warmup {
                continue;
            }
            let phase = if !o.split_phases { "all" } else if r.progress.tuning { "warmup" } else { "sample" };
            for (name, v) in &r.stats {
                if let (Some(col), Some(v)) = (m.get_mut(&(c, "stats", phase, name.clone())), v) {
                    col.push_value(v);
                }
            }
            for (name, v) in &r.draws {
                if let (Some(col), Some(v)) = (m.get_mut(&(c, "draws", phase, name.clone())), v) {
                    col.push_value(v);
                }
            }
        }
    }
    m
}

/// Compare read-back with the model. `prefix_ok`: the backend's column may hold trailing fill values
/// beyond the recorded prefix (pre-sized arrays); then only the first model.len() entries are compared.
pub fn compare(backend: &str, what: &str, got: &Canon, want: &Canon, padded: bool, out: &mut RunOutcome) {
    for (k, w) in want {
        let Some(g) = got.get(k) else {
            out.violate(format!("C14/{backend}/missing_column/{}/{}", k.1, short_name(&k.3)), format!("{what}: chain {} {} {} {}: column missing in read-back", k.0, k.1, k.2, k.3));
            continue;
        };
        if g.kind() != w.kind() {
            out.violate(format!("C14/{backend}/type_mismatch/{}/{}", k.1, short_name(&k.3)), format!("{what}: chain {} {} {}: stored as {}, declared {}", k.0, k.2, k.3, g.kind(), w.kind()));
            continue;
        }
        let ok = if padded { w.is_prefix_of(g) } else { g == w };
        if !ok {
            let class = if g.len() < w.len() { "values_lost" } else if !padded && g.len() > w.len() { "extra_values" } else { "values_differ" };
            out.violate(
                format!("C14/{backend}/{class}/{}/{}", k.1, short_name(&k.3)),
                format!("{what}: chain {} {} {} {}: read back {} values, recorded {}; {}", k.0, k.1, k.2, k.3, g.len(), w.len(), first_col_diff(g, w)),
            );
        }
    }
}

fn short_name(n: &str) -> String {
    n.to_string()
}

fn first_col_diff(g: &Col, w: &Col) -> String {
    macro_rules! d {
        ($a:expr, $b:expr) => {{
            let n = $a.len().min($b.len());
            match (0..n).find(|i| $a[*i] != $b[*i]) {
                Some(i) => format!("first difference at flat index {i}: got {:?}, recorded {:?}", $a[i], $b[i]),
                None => format!("common prefix of {n} values equal"),
            }
        }};
    }
    match (g, w) {
        (Col::F64(a), Col::F64(b)) => d!(a, b),
        (Col::F32(a), Col::F32(b)) => d!(a, b),
        (Col::I64(a), Col::I64(b)) => d!(a, b),
        (Col::U64(a), Col::U64(b)) => d!(a, b),
        (Col::Bool(a), Col::Bool(b)) => d!(a, b),
        (Col::Str(a), Col::Str(b)) => d!(a, b),
        _ => "types differ".into(),
    }
}

// ------------------------------------------------------------------------------------------------
// driving a backend

#[derive(Clone, Debug)]
pub enum Op {
    Record(usize),
    Flush(usize),
    Inspect,
}

pub fn plan_ops(sc: &StoreScenario, lens: &[usize]) -> Vec<Op> {
    let mut r = Prng::sub(sc.ops_seed, "ops");
    let mut left: Vec<usize> = lens.to_vec();
    let mut ops = vec![];
    // a flush before any draw is legal
    if r.chance(sc.flush_prob) {
        ops.push(Op::Flush(r.below(lens.len().max(1) as u64) as usize));
    }
    loop {
        let avail: Vec<usize> = (0..left.len()).filter(|c| left[*c] > 0).collect();
        if avail.is_empty() {
            break;
        }
        let c = avail[r.below(avail.len() as u64) as usize];
        left[c] -= 1;
        ops.push(Op::Record(c));
        if r.chance(sc.flush_prob) {
            // flush of one chain, sometimes of all (as Sampler::flush does), sometimes twice
            if r.chance(0.5) {
                for k in 0..lens.len() {
                    ops.push(Op::Flush(k));
                }
            } else {
                ops.push(Op::Flush(c));
                if r.chance(0.2) {
                    ops.push(Op::Flush(c));
                }
            }
        }
        if r.chance(sc.inspect_prob) {
            ops.push(Op::Inspect);
        }
    }
    ops
}

pub struct DriveHooks<'a, F> {
    /// called after every flush op returned Ok, with the number of draws recorded per chain so far
    pub on_flush: Box<dyn FnMut(usize, &[usize], &mut RunOutcome) + 'a>,
    pub on_inspect: Box<dyn FnMut(F, &[usize], &mut RunOutcome) + 'a>,
}

pub enum DriveEnd<F> {
    Finalized(Option<String>, F),
    Failed(String, &'static str),
    Panicked(String, &'static str),
}

/// Drive one backend with the recorded histories. Every backend call runs under catch_unwind.
pub fn drive<S: Settings, C: StorageConfig>(
    settings: &S,
    sc: &StoreScenario,
    config: C,
    h: &Histories,
    ops: &[Op],
    hooks: &mut DriveHooks<'_, <C::Storage as TraceStorage>::Finalized>,
    out: &mut RunOutcome,
) -> DriveEnd<<C::Storage as TraceStorage>::Finalized> {
    let math = CpuMath::new(make_density(sc));
    let nc = h.chains.len();
    let trace = match catch_unwind(AssertUnwindSafe(|| config.new_trace(settings, &math))) {
        Ok(Ok(t)) => t,
        Ok(Err(e)) => return DriveEnd::Failed(format!("{e:#}"), "new_trace"),
        Err(p) => return DriveEnd::Panicked(panic_message(p), "new_trace"),
    };
    let mut chains = vec![];
    for c in 0..nc {
        match catch_unwind(AssertUnwindSafe(|| trace.initialize_trace_for_chain(c as u64))) {
            Ok(Ok(t)) => chains.push(t),
            Ok(Err(e)) => return DriveEnd::Failed(format!("{e:#}"), "initialize_trace_for_chain"),
            Err(p) => return DriveEnd::Panicked(panic_message(p), "initialize_trace_for_chain"),
        }
    }
    let mut done = vec![0usize; nc];
    for op in ops {
        match op {
            Op::Record(c) => {
                let r = &h.chains[*c][done[*c]];
                let stats: Vec<(&str, Option<Value>)> = r.stats.iter().map(|(n, v)| (n.as_str(), v.clone())).collect();
                let draws: Vec<(&str, Option<Value>)> = r.draws.iter().map(|(n, v)| (n.as_str(), v.clone())).collect();
                let ch = &mut chains[*c];
                match catch_unwind(AssertUnwindSafe(|| ch.record_sample(settings, stats, draws, &r.progress))) {
                    Ok(Ok(())) => done[*c] += 1,
                    Ok(Err(e)) => return DriveEnd::Failed(format!("{e:#}"), "record_sample"),
                    Err(p) => {
                        std::mem::forget(chains);
                        return DriveEnd::Panicked(panic_message(p), "record_sample");
                    }
                }
            }
            Op::Flush(c) => {
                let ch = &chains[*c];
                match catch_unwind(AssertUnwindSafe(|| ch.flush())) {
                    Ok(Ok(())) => (hooks.on_flush)(*c, &done, out),
                    Ok(Err(e)) => return DriveEnd::Failed(format!("{e:#}"), "flush"),
                    Err(p) => {
                        std::mem::forget(chains);
                        return DriveEnd::Panicked(panic_message(p), "flush");
                    }
                }
            }
            Op::Inspect => {
                let r = catch_unwind(AssertUnwindSafe(|| {
                    let parts: Vec<_> = chains.iter().map(|c| c.inspect()).collect();
                    trace.inspect(parts)
                }));
                match r {
                    Ok(Ok((err, f))) => {
                        if let Some(e) = err {
                            return DriveEnd::Failed(format!("{e:#}"), "inspect");
                        }
                        (hooks.on_inspect)(f, &done, out);
                    }
                    Ok(Err(e)) => return DriveEnd::Failed(format!("{e:#}"), "inspect"),
                    Err(p) => {
                        std::mem::forget(chains);
                        return DriveEnd::Panicked(panic_message(p), "inspect");
                    }
                }
            }
        }
    }
    let r = catch_unwind(AssertUnwindSafe(|| {
        let parts: Vec<_> = chains.into_iter().map(|c| c.finalize()).collect();
        trace.finalize(parts)
    }));
    match r {
        Ok(Ok((err, f))) => DriveEnd::Finalized(err.map(|e| format!("{e:#}")), f),
        Ok(Err(e)) => DriveEnd::Failed(format!("{e:#}"), "finalize"),
        Err(p) => DriveEnd::Panicked(panic_message(p), "finalize"),
    }
}

// ------------------------------------------------------------------------------------------------
// readers

fn read_arrow(res: &[nuts_rs::ArrowTrace], out: &mut RunOutcome) -> Canon {
    use arrow::array::*;
    use arrow::datatypes::DataType;
    let mut m: Canon = BTreeMap::new();
    fn prim(a: &dyn Array, rows: Option<(usize, usize)>) -> Option<Col> {
        let (lo, hi) = rows.unwrap_or((0, a.len()));
        Some(match a.data_type() {
            DataType::Float64 => {
                let x = a.as_any().downcast_ref::<Float64Array>()?;
                Col::F64((lo..hi).filter(|i| !x.is_null(*i)).map(|i| canon_f64(x.value(i))).collect())
            }
            DataType::Float32 => {
                let x = a.as_any().downcast_ref::<Float32Array>()?;
                Col::F32((lo..hi).filter(|i| !x.is_null(*i)).map(|i| canon_f32(x.value(i))).collect())
            }
            DataType::Int64 => {
                let x = a.as_any().downcast_ref::<Int64Array>()?;
                Col::I64((lo..hi).filter(|i| !x.is_null(*i)).map(|i| x.value(i)).collect())
            }
            DataType::UInt64 => {
                let x = a.as_any().downcast_ref::<UInt64Array>()?;
                Col::U64((lo..hi).filter(|i| !x.is_null(*i)).map(|i| x.value(i)).collect())
            }
            DataType::Boolean => {
                let x = a.as_any().downcast_ref::<BooleanArray>()?;
                Col::Bool((lo..hi).filter(|i| !x.is_null(*i)).map(|i| x.value(i)).collect())
            }
            DataType::Utf8 => {
                let x = a.as_any().downcast_ref::<StringArray>()?;
                Col::Str((lo..hi).filter(|i| !x.is_null(*i)).map(|i| x.value(i).to_string()).collect())
            }
            _ => return None,
        })
    }
    for (c, t) in res.iter().enumerate() {
        for (group, batch) in [("draws", &t.posterior), ("stats", &t.sample_stats)] {
            let schema = batch.schema();
            for (i, f) in schema.fields().iter().enumerate() {
                let arr = batch.column(i);
                let col = match arr.data_type() {
                    DataType::LargeList(_) => {
                        let l = arr.as_any().downcast_ref::<LargeListArray>().unwrap();
                        let mut acc: Option<Col> = None;
                        for row in 0..l.len() {
                            if l.is_null(row) {
                                continue;
                            }
                            let v = l.value(row);
                            let c2 = prim(v.as_ref(), None);
                            match (acc.as_mut(), c2) {
                                (None, Some(c2)) => acc = Some(c2),
                                (Some(a), Some(c2)) => append_col(a, c2),
                                _ => {}
                            }
                        }
                        acc.or_else(|| {
                            // no rows: derive the type from the field
                            if let DataType::LargeList(inner) = f.data_type() {
                                empty_for(inner.data_type())
                            } else {
                                None
                            }
                        })
                    }
                    _ => prim(arr.as_ref(), None),
                };
                match col {
                    Some(col) => {
                        m.insert((c, group, "all", f.name().clone()), col);
                    }
                    None => out.violate(format!("C14/arrow/unreadable_column/{group}/{}", f.name()), format!("chain {c}: arrow type {:?}", arr.data_type())),
                }
            }
        }
    }
    m
}

fn empty_for(t: &arrow::datatypes::DataType) -> Option<Col> {
    use arrow::datatypes::DataType;
    Some(match t {
        DataType::Float64 => Col::F64(vec![]),
        DataType::Float32 => Col::F32(vec![]),
        DataType::Int64 => Col::I64(vec![]),
        DataType::UInt64 => Col::U64(vec![]),
        DataType::Boolean => Col::Bool(vec![]),
        DataType::Utf8 => Col::Str(vec![]),
        _ => return None,
    })
}

fn append_col(a: &mut Col, b: Col) {
    match (a, b) {
        (Col::F64(a), Col::F64(b)) => a.extend(b),
        (Col::F32(a), Col::F32(b)) => a.extend(b),
        (Col::I64(a), Col::I64(b)) => a.extend(b),
        (Col::U64(a), Col::U64(b)) => a.extend(b),
        (Col::Bool(a), Col::Bool(b)) => a.extend(b),
        (Col::Str(a), Col::Str(b)) => a.extend(b),
        _ => {}
    }
}

/// ndarray: dense [chain, draw, ...] arrays; rows of absent values hold the default. Returns per
/// (chain, group, name) the flat values of the rows listed in `present`.
fn read_ndarray(t: &nuts_rs::NdarrayTrace, h: &Histories, upto: &[usize]) -> Canon {
    use nuts_rs::NdarrayValue as V;
    let mut m: Canon = BTreeMap::new();
    for (group, map) in [("stats", &t.stats), ("draws", &t.draws)] {
        for (name, v) in map {
            for c in 0..h.chains.len() {
                // which rows are present according to the model
                let rows: Vec<usize> = (0..upto[c])
                    .filter(|i| {
                        let r = &h.chains[c][*i];
                        let list = if group == "stats" { &r.stats } else { &r.draws };
                        list.iter().any(|(n, v)| n == name && v.is_some())
                    })
                    .collect();
                macro_rules! gather {
                    ($arr:expr, $mk:expr) => {{
                        let a = $arr;
                        let mut out = vec![];
                        if a.ndim() >= 2 && c < a.shape()[0] {
                            for r in &rows {
                                if *r < a.shape()[1] {
                                    let sub = a.index_axis(ndarray::Axis(0), c);
                                    let row = sub.index_axis(ndarray::Axis(0), *r);
                                    out.extend(row.iter().cloned());
                                }
                            }
                        }
                        $mk(out)
                    }};
                }
                let col = match v {
                    V::F64(a) => gather!(a, |o: Vec<f64>| Col::F64(o.into_iter().map(canon_f64).collect())),
                    V::F32(a) => gather!(a, |o: Vec<f32>| Col::F32(o.into_iter().map(canon_f32).collect())),
                    V::Bool(a) => gather!(a, Col::Bool),
                    V::I64(a) => gather!(a, Col::I64),
                    V::U64(a) => gather!(a, Col::U64),
                    V::String(a) => gather!(a, Col::Str),
                };
                m.insert((c, group, "all", name.clone()), col);
            }
        }
    }
    m
}

// ---- zarr ---------------------------------------------------------------------------------------

use zarrs::array::{Array, ArraySubset};
use zarrs::storage::store::MemoryStore;
use zarrs::storage::{ListableStorageTraits, ReadableListableStorageTraits, ReadableStorageTraits, WritableStorageTraits};

/// Copy of everything a fresh reader would see right now.
pub fn snapshot_store(src: &dyn ReadableListableStorageTraits) -> Arc<MemoryStore> {
    let dst = MemoryStore::new();
    if let Ok(keys) = src.list() {
        for k in keys {
            if let Ok(Some(v)) = src.get(&k) {
                let _ = dst.set(&k, v);
            }
        }
    }
    Arc::new(dst)
}

fn read_zarr_array(store: Arc<dyn ReadableListableStorageTraits>, path: &str, t: ItemType, chain: usize) -> std::result::Result<(Col, Vec<u64>), String> {
    let arr = Array::open(store, path).map_err(|e| format!("open {path}: {e}"))?;
    let shape = arr.shape().to_vec();
    if shape.len() < 2 || chain as u64 >= shape[0] {
        return Err(format!("{path}: shape {shape:?}"));
    }
    let mut start = vec![0u64; shape.len()];
    start[0] = chain as u64;
    let mut sub_shape = shape.clone();
    sub_shape[0] = 1;
    let subset = ArraySubset::new_with_start_shape(start, sub_shape).map_err(|e| format!("{e}"))?;
    macro_rules! get {
        ($ty:ty) => {
            arr.retrieve_array_subset::<Vec<$ty>>(&subset).map_err(|e| format!("read {path}: {e}"))
        };
    }
    let col = match t {
        ItemType::F64 => Col::F64(get!(f64)?.into_iter().map(canon_f64).collect()),
        ItemType::F32 => Col::F32(get!(f32)?.into_iter().map(canon_f32).collect()),
        ItemType::I64 | ItemType::DateTime64(_) | ItemType::TimeDelta64(_) => Col::I64(get!(i64)?),
        ItemType::U64 => Col::U64(get!(u64)?),
        ItemType::Bool => Col::Bool(get!(bool)?),
        ItemType::String => Col::Str(get!(String)?),
    };
    Ok((col, shape))
}

/// Read all arrays of all groups for all chains. Missing arrays are reported by the comparison.
pub fn read_zarr(store: Arc<dyn ReadableListableStorageTraits>, h: &Histories, group_path: &str, only_chains: Option<&[usize]>, errors: &mut Vec<String>) -> (Canon, BTreeMap<(String, String), Vec<u64>>) {
    let mut m: Canon = BTreeMap::new();
    let mut shapes = BTreeMap::new();
    for (phase, sgroup, dgroup) in [("warmup", "warmup_sample_stats", "warmup_posterior"), ("sample", "sample_stats", "posterior")] {
        for c in 0..h.chains.len() {
            if let Some(only) = only_chains {
                if !only.contains(&c) {
                    continue;
                }
            }
            for (name, t) in &h.stat_types {
                if name == "draw" || name == "chain" {
                    continue;
                }
                match read_zarr_array(store.clone(), &format!("{group_path}/{sgroup}/{name}"), *t, c) {
                    Ok((col, shape)) => {
                        m.insert((c, "stats", phase, name.clone()), col);
                        shapes.insert((sgroup.to_string(), name.clone()), shape);
                    }
                    Err(e) => errors.push(e),
                }
            }
            for (name, t) in &h.data_types {
                if name == "draw" || name == "chain" {
                    continue;
                }
                match read_zarr_array(store.clone(), &format!("{group_path}/{dgroup}/{name}"), *t, c) {
                    Ok((col, shape)) => {
                        m.insert((c, "draws", phase, name.clone()), col);
                        shapes.insert((dgroup.to_string(), name.clone()), shape);
                    }
                    Err(e) => errors.push(e),
                }
            }
        }
    }
    (m, shapes)
}

/// Store wrapper: counts writes, fails the k-th one, and keeps a snapshot after every write.
pub struct FaultStore {
    /// the real store: zarrs MemoryStore, or a zarrs FilesystemStore on a per-run scratch directory
    pub inner: Arc<dyn zarrs::storage::ReadableWritableListableStorageTraits>,
    pub state: Mutex<FaultStoreState>,
}

#[derive(Default)]
pub struct FaultStoreState {
    pub writes: u64,
    pub fail_at: Option<u64>,
    pub failed: bool,
    /// keep a log of every successful write (crash points between store writes are replayed from it)
    pub keep_snapshots: bool,
    pub write_log: Vec<(u64, WriteRec)>,
}

/// One successful store write, as a fresh reader would see its effect.
#[derive(Clone)]
pub enum WriteRec {
    Set(zarrs::storage::StoreKey, zarrs::storage::Bytes),
    Erase(zarrs::storage::StoreKey),
    ErasePrefix(zarrs::storage::StorePrefix),
}

pub fn apply_write_rec(dst: &MemoryStore, rec: &WriteRec) {
    let _ = match rec {
        WriteRec::Set(k, v) => dst.set(k, v.clone()),
        WriteRec::Erase(k) => dst.erase(k),
        WriteRec::ErasePrefix(p) => dst.erase_prefix(p),
    };
}

impl FaultStore {
    pub fn new(fail_at: Option<u64>, keep_snapshots: bool) -> Self {
        FaultStore {
            inner: Arc::new(MemoryStore::new()),
            state: Mutex::new(FaultStoreState { fail_at, keep_snapshots, ..Default::default() }),
        }
    }
    pub fn new_filesystem(dir: &std::path::Path, fail_at: Option<u64>) -> std::result::Result<Self, String> {
        let fs = zarrs::filesystem::FilesystemStore::new(dir).map_err(|e| format!("{e}"))?;
        Ok(FaultStore { inner: Arc::new(fs), state: Mutex::new(FaultStoreState { fail_at, keep_snapshots: false, ..Default::default() }) })
    }
    /// what a fresh reader sees right now
    pub fn snapshot(&self) -> Arc<MemoryStore> {
        let dst = MemoryStore::new();
        if let Ok(keys) = self.inner.list() {
            for k in keys {
                if let Ok(Some(v)) = self.inner.get(&k) {
                    let _ = dst.set(&k, v);
                }
            }
        }
        Arc::new(dst)
    }
    fn before_write(&self) -> std::result::Result<(), zarrs::storage::StorageError> {
        let mut st = self.state.lock().unwrap();
        let k = st.writes;
        st.writes += 1;
        if st.fail_at == Some(k) {
            st.failed = true;
            return Err(zarrs::storage::StorageError::Other(format!("simulated store write failure at write {k}")));
        }
        Ok(())
    }
    fn after_write(&self, ok: bool, rec: impl FnOnce() -> WriteRec) {
        let mut st = self.state.lock().unwrap();
        if st.keep_snapshots && ok {
            let k = st.writes;
            st.write_log.push((k, rec()));
        }
    }
}

impl ReadableStorageTraits for FaultStore {
    fn get_partial_many<'a>(
        &'a self,
        key: &zarrs::storage::StoreKey,
        byte_ranges: zarrs::storage::byte_range::ByteRangeIterator<'a>,
    ) -> std::result::Result<zarrs::storage::MaybeBytesIterator<'a>, zarrs::storage::StorageError> {
        self.inner.get_partial_many(key, byte_ranges)
    }
    fn size_key(&self, key: &zarrs::storage::StoreKey) -> std::result::Result<Option<u64>, zarrs::storage::StorageError> {
        self.inner.size_key(key)
    }
    fn supports_get_partial(&self) -> bool {
        self.inner.supports_get_partial()
    }
}

impl ListableStorageTraits for FaultStore {
    fn list(&self) -> std::result::Result<zarrs::storage::StoreKeys, zarrs::storage::StorageError> {
        self.inner.list()
    }
    fn list_prefix(&self, prefix: &zarrs::storage::StorePrefix) -> std::result::Result<zarrs::storage::StoreKeys, zarrs::storage::StorageError> {
        self.inner.list_prefix(prefix)
    }
    fn list_dir(&self, prefix: &zarrs::storage::StorePrefix) -> std::result::Result<zarrs::storage::StoreKeysPrefixes, zarrs::storage::StorageError> {
        self.inner.list_dir(prefix)
    }
    fn size_prefix(&self, prefix: &zarrs::storage::StorePrefix) -> std::result::Result<u64, zarrs::storage::StorageError> {
        self.inner.size_prefix(prefix)
    }
}

impl WritableStorageTraits for FaultStore {
    fn set(&self, key: &zarrs::storage::StoreKey, value: zarrs::storage::Bytes) -> std::result::Result<(), zarrs::storage::StorageError> {
        self.before_write()?;
        let keep = self.state.lock().unwrap().keep_snapshots;
        let copy = if keep { Some(value.clone()) } else { None };
        let r = self.inner.set(key, value);
        self.after_write(r.is_ok(), || WriteRec::Set(key.clone(), copy.unwrap_or_default()));
        r
    }
    fn set_partial_many(&self, key: &zarrs::storage::StoreKey, offset_values: zarrs::storage::OffsetBytesIterator) -> std::result::Result<(), zarrs::storage::StorageError> {
        self.before_write()?;
        let r = self.inner.set_partial_many(key, offset_values);
        self.after_write(r.is_ok(), || WriteRec::Set(key.clone(), self.inner.get(key).ok().flatten().unwrap_or_default()));
        r
    }
    fn erase(&self, key: &zarrs::storage::StoreKey) -> std::result::Result<(), zarrs::storage::StorageError> {
        self.before_write()?;
        let r = self.inner.erase(key);
        self.after_write(r.is_ok(), || WriteRec::Erase(key.clone()));
        r
    }
    fn erase_prefix(&self, prefix: &zarrs::storage::StorePrefix) -> std::result::Result<(), zarrs::storage::StorageError> {
        self.before_write()?;
        let r = self.inner.erase_prefix(prefix);
        self.after_write(r.is_ok(), || WriteRec::ErasePrefix(prefix.clone()));
        r
    }
    fn supports_set_partial(&self) -> bool {
        self.inner.supports_set_partial()
    }
}

pub fn hist_digest(h: &Histories) -> u64 {
    let mut d = Digest::new();
    for c in &h.chains {
        for r in c {
            for (n, v) in &r.stats {
                d.str(n);
                crate::chain::digest_value(&mut d, v);
            }
            for (n, v) in &r.draws {
                d.str(n);
                crate::chain::digest_value(&mut d, v);
            }
            d.bool(r.progress.tuning);
        }
    }
    d.0
}

include!("storesim_run.rs");
