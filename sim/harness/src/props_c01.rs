//! C01 (NUTS transition reversible: tree symmetry under mirrored doubling choices, selection law,
//! unbiased directions) and C02 (integrator = textbook leapfrog for M^-1 = F F^T, reversible,
//! consistent bijection) — direct drive of the real `nuts::draw` / `Hamiltonian::leapfrog` (hook H3)
//! with every random decision scripted by the simulator.

use std::collections::VecDeque;
use std::sync::{Arc, Mutex};

use nuts_rs::verif::{TapState, VerifNutsOptions, VerifTransform};
use nuts_rs::{CpuMath, KineticEnergyKind};
use serde::{Deserialize, Serialize};
use serde_json::{Value as J, json};

use crate::density::{SimDensity, Target, new_log};
use crate::driver::{RunOutcome, Scenario};
use crate::prng::{Digest, Prng};
use crate::refnuts::{AuditOpts, StopReason, audit};
use crate::simmath::SimMath;

#[derive(Clone, Debug, Serialize, Deserialize)]
pub enum TransformSpec {
    Diag { stds: Vec<f64>, mean: Vec<f64> },
    LowRank { stds: Vec<f64>, mean: Vec<f64>, vals: Vec<f64>, vecs: Vec<Vec<f64>>, mu: Vec<f64> },
}

impl TransformSpec {
    pub fn to_verif(&self) -> VerifTransform {
        match self {
            TransformSpec::Diag { stds, mean } => VerifTransform::Diag { stds: stds.clone(), mean: mean.clone() },
            TransformSpec::LowRank { stds, mean, vals, vecs, mu } => VerifTransform::LowRank { stds: stds.clone(), mean: mean.clone(), vals: vals.clone(), vecs: vecs.clone(), mu: mu.clone() },
        }
    }
    /// dense Jacobian F = diag(sigma) (I + U (Lambda^{1/2} - I) U^T), row-major
    fn jacobian(&self) -> Vec<f64> {
        match self {
            TransformSpec::Diag { stds, .. } => {
                let n = stds.len();
                let mut f = vec![0.0; n * n];
                for i in 0..n {
                    f[i * n + i] = stds[i];
                }
                f
            }
            TransformSpec::LowRank { stds, vals, vecs, .. } => {
                let n = stds.len();
                let mut l = vec![0.0; n * n];
                for i in 0..n {
                    l[i * n + i] = 1.0;
                }
                for (k, u) in vecs.iter().enumerate() {
                    let c = vals[k].sqrt() - 1.0;
                    for i in 0..n {
                        for j in 0..n {
                            l[i * n + j] += c * u[i] * u[j];
                        }
                    }
                }
                for i in 0..n {
                    for j in 0..n {
                        l[i * n + j] *= stds[i];
                    }
                }
                l
            }
        }
    }
    fn forward(&self, y: &[f64]) -> Vec<f64> {
        let n = y.len();
        let f = self.jacobian();
        let (mean, shift): (&Vec<f64>, Vec<f64>) = match self {
            TransformSpec::Diag { mean, .. } => (mean, vec![0.0; n]),
            TransformSpec::LowRank { mean, stds, mu, .. } => (mean, (0..n).map(|i| stds[i] * mu[i]).collect()),
        };
        (0..n).map(|i| (0..n).map(|j| f[i * n + j] * y[j]).sum::<f64>() + shift[i] + mean[i]).collect()
    }
    fn logdet_inv(&self) -> f64 {
        match self {
            TransformSpec::Diag { stds, .. } => -stds.iter().map(|s| s.ln()).sum::<f64>(),
            TransformSpec::LowRank { stds, vals, .. } => -stds.iter().map(|s| s.ln()).sum::<f64>() - 0.5 * vals.iter().map(|v| v.ln()).sum::<f64>(),
        }
    }
}

pub fn gen_transform(r: &mut Prng, d: usize, allow_lowrank: bool) -> TransformSpec {
    let stds: Vec<f64> = (0..d).map(|_| r.log_uniform(0.05, 20.0)).collect();
    let mean: Vec<f64> = (0..d).map(|_| r.uniform(-2.0, 2.0)).collect();
    if allow_lowrank && r.chance(0.5) {
        let rank = r.usize_in(0, d);
        let q = crate::density::random_orthogonal(r, d);
        let vecs: Vec<Vec<f64>> = (0..rank).map(|k| (0..d).map(|j| q[k * d + j]).collect()).collect();
        let vals: Vec<f64> = (0..rank).map(|_| r.log_uniform(0.1, 10.0)).collect();
        let mu: Vec<f64> = (0..d).map(|_| if rank > 0 { r.uniform(-1.0, 1.0) } else { 0.0 }).collect();
        TransformSpec::LowRank { stds, mean, vals, vecs, mu }
    } else {
        TransformSpec::Diag { stds, mean }
    }
}

/// Scripted random number generator: directions from `next_u32`, selection thresholds from `next_u64`.
pub struct ScriptedRng {
    pub u32s: VecDeque<u32>,
    pub u64s: VecDeque<u64>,
    pub calls: Vec<char>,
    pub exhausted: bool,
}

impl rand::TryRng for ScriptedRng {
    type Error = std::convert::Infallible;
    fn try_next_u32(&mut self) -> Result<u32, Self::Error> {
        self.calls.push('d');
        Ok(self.u32s.pop_front().unwrap_or_else(|| {
            self.exhausted = true;
            0
        }))
    }
    fn try_next_u64(&mut self) -> Result<u64, Self::Error> {
        self.calls.push('s');
        Ok(self.u64s.pop_front().unwrap_or_else(|| {
            self.exhausted = true;
            0
        }))
    }
    fn try_fill_bytes(&mut self, dst: &mut [u8]) -> Result<(), Self::Error> {
        self.calls.push('b');
        self.exhausted = true;
        for b in dst.iter_mut() {
            *b = 0;
        }
        Ok(())
    }
}

#[derive(Clone, Debug, Serialize, Deserialize)]
pub struct NutsScenario {
    pub target: Target,
    pub transform: TransformSpec,
    pub exact_normal: bool,
    pub step_size: f64,
    pub maxdepth: u64,
    pub x0: Vec<f64>,
    pub v0: Vec<f64>,
    /// raw u32 per doubling (direction = sign bit)
    pub dirs: Vec<u32>,
    /// raw u64 per selection
    pub us: Vec<u64>,
}

struct DrawRun {
    outcome: Result<nuts_rs::verif::DrawOutcome, String>,
    tap: Vec<TapState>,
    calls: Vec<char>,
    exhausted: bool,
}

fn run_draw(sc: &NutsScenario, x0: &[f64], v0: &[f64], dirs: &[u32], us: &[u64]) -> DrawRun {
    let log = new_log(false);
    let density = SimDensity::new(sc.target.clone(), vec![], log.clone());
    let events: crate::simmath::MathLog = Default::default();
    let mut math = SimMath::new(CpuMath::new(density), log, events);
    math.scripted_gaussian.lock().unwrap().push_back(v0.to_vec());
    let mut rng = ScriptedRng { u32s: dirs.iter().cloned().collect(), u64s: us.iter().cloned().collect(), calls: vec![], exhausted: false };
    let opts = VerifNutsOptions { maxdepth: sc.maxdepth, mindepth: 0, check_turning: true, extra_doublings: 0, max_energy_error: 1000.0, target_integration_time: None };
    let kind = if sc.exact_normal { KineticEnergyKind::ExactNormal } else { KineticEnergyKind::Euclidean };
    nuts_rs::verif::tap_enable();
    let outcome = nuts_rs::verif::nuts_draw(&mut math, &sc.transform.to_verif(), kind, sc.step_size, x0, &mut rng, &opts);
    let tap = nuts_rs::verif::tap_take();
    nuts_rs::verif::tap_disable();
    DrawRun { outcome, tap, calls: rng.calls, exhausted: rng.exhausted }
}

fn select_with(us: &[u64]) -> impl FnMut(f64) -> bool + '_ {
    let mut k = 0;
    move |p: f64| {
        let u = us.get(k).copied().unwrap_or(0);
        k += 1;
        // Bernoulli(p): u < p * 2^64
        let scale = 2.0 * (1u64 << 63) as f64;
        let p_int = (p * scale) as u64;
        u < p_int
    }
}

impl Scenario for NutsScenario {
    fn run(&self) -> RunOutcome {
        let mut out = RunOutcome::default();
        let dim = self.target.dim();
        let o = AuditOpts { maxdepth: self.maxdepth, mindepth: 0, check_turning: true, extra_doublings: 0 };
        let a = run_draw(self, &self.x0, &self.v0, &self.dirs, &self.us);
        let mut dg = Digest::new();
        for t in &a.tap {
            dg.f64s(&t.x);
            dg.u64(t.index as u64);
        }
        out.digest = dg.0;
        out.sim_evals = a.tap.len() as u64;
        out.sim_draws = 1;
        let Ok(outcome) = &a.outcome else {
            out.probe("start_point_rejected", 1);
            return out;
        };
        if a.exhausted {
            crate::driver::harness_error("C01: random script exhausted");
        }
        // the momentum delivered at the seam is the scripted one
        if a.tap.first().map(|t| t.v.iter().zip(&self.v0).any(|(x, y)| x.to_bits() != y.to_bits())).unwrap_or(true) {
            out.violate("C01/momentum_not_from_array_gaussian", "the start state's velocity is not the vector delivered by Math::array_gaussian");
            return out;
        }
        let mut sel = select_with(&self.us);
        let au = match audit(&a.tap, dim, &o, Some(&mut sel)) {
            Ok(x) => x,
            Err(m) => {
                out.violate("C01/tree_building_differs_from_reference", m);
                return out;
            }
        };
        if au.near_tie || au.weight_tie {
            out.probe(if au.near_tie { "near_tie_skipped" } else { "weight_tie_skipped" }, 1);
            return out;
        }
        if au.reason == StopReason::Divergence {
            // outside the quantifier (energy spread above the divergence limit)
            out.probe("divergent_trajectory_skipped", 1);
            return out;
        }
        out.nontrivial = au.depth >= 2;
        out.probe(&format!("stop_{:?}", au.reason), 1);
        if outcome.depth != au.depth || outcome.maxdepth_reached != (au.reason == StopReason::MaxDepth) || outcome.diverging {
            out.violate("C01/stopping_differs_from_reference", format!("implementation: depth {} maxdepth_reached {} diverging {}; reference: depth {} reason {:?} block {:?}", outcome.depth, outcome.maxdepth_reached, outcome.diverging, au.depth, au.reason, au.block));
            return out;
        }
        // R3: direction = sign bit of the raw u32
        for (k, fwd) in au.directions.iter().enumerate() {
            let scripted_fwd = (self.dirs[k] as i32) < 0;
            if *fwd != scripted_fwd {
                out.violate("C01/direction_not_sign_bit_of_uniform_draw", format!("doubling {k}: raw draw {:#x} gave direction {}", self.dirs[k], if *fwd { "forward" } else { "backward" }));
                return out;
            }
        }
        // RNG call sequence: one direction draw per doubling, one selection draw per merge with p < 1
        let mut expect = String::new();
        {
            // merges are recorded in the order of the draws; directions precede the merges of their doubling
            let mut m = 0;
            let mut size = 1u64; // leaves in the new half of doubling k
            for _k in 0..au.directions.len() {
                expect.push('d');
                // the new half has size-1 inner merges, then the top merge (if the half was accepted)
                let inner = size - 1;
                let mut taken = 0;
                while taken < inner + 1 && m < au.merges.len() {
                    if au.merges[m].p < 1.0 {
                        expect.push('s');
                    }
                    let is_top = au.merges[m].is_main;
                    m += 1;
                    taken += 1;
                    if is_top {
                        break;
                    }
                }
                size *= 2;
            }
        }
        let got: String = a.calls.iter().collect();
        if got != expect {
            // a rejected last half stops in the middle: only the prefix relation is required then
            if !(au.rejected.is_some() && expect.starts_with(&got)) && !(au.rejected.is_some() && got.starts_with(&expect)) {
                out.violate("C01/random_draw_sequence", format!("implementation drew {got:?}, reference expects {expect:?} (d = direction u32, s = selection u64)"));
                return out;
            }
        }
        // R2: selection law
        if Some(outcome.index) != au.selected {
            // margin: a threshold within 1e-6 (relative) of u is a near-tie
            let scale = 2.0 * (1u64 << 63) as f64;
            let mut k = 0;
            let mut tie = false;
            for m in &au.merges {
                if m.p < 1.0 {
                    let u = self.us.get(k).copied().unwrap_or(0) as f64;
                    if ((m.p * scale) - u).abs() <= 1e-6 * m.p * scale {
                        tie = true;
                    }
                    k += 1;
                }
            }
            if tie {
                out.probe("selection_near_tie_skipped", 1);
            } else {
                out.violate(
                    "C01/selection_law",
                    format!("implementation returned index {}, the reference selects {:?} with the same random draws (merge probabilities {:?})", outcome.index, au.selected, au.merges.iter().map(|m| (m.newer, (m.p * 1e6).round() / 1e6, m.is_main)).collect::<Vec<_>>()),
                );
                return out;
            }
        }
        out.probe("selection_checked", 1);
        // R1: tree symmetry under mirrored doubling choices. Orbits along which the integrator is unstable
        // (large energy spread, still below the divergence limit) amplify rounding differences between the
        // forward and the backward pass beyond any useful tolerance: they are counted and skipped.
        let e0 = a.tap[0].energy;
        let spread = a.tap.iter().filter(|t| !t.failed).map(|t| (t.energy - e0).abs()).fold(0.0, f64::max);
        if spread > 2.0 {
            out.probe("unstable_orbit_mirror_skipped", 1);
            return out;
        }
        let k = au.depth;
        let (lo, hi) = au.block;
        let mut mirrored = 0;
        for j in lo..=hi {
            if j == 0 {
                continue;
            }
            let Some(sj) = a.tap.iter().find(|t| t.index == j && !t.failed) else { continue };
            let off = (j - lo) as u64;
            let mut dirs: Vec<u32> = (0..k).map(|m| if (off >> m) & 1 == 0 { 0x8000_0000u32 } else { 0 }).collect();
            if au.rejected.is_some() {
                dirs.push(if *au.directions.last().unwrap() { 0x8000_0000 } else { 0 });
            }
            while dirs.len() < self.maxdepth as usize + 1 {
                dirs.push(0);
            }
            let b = run_draw(self, &sj.x, &sj.v, &dirs, &self.us);
            let Ok(ob) = &b.outcome else {
                out.violate("C01/mirror_start_rejected", format!("state {j} of the trajectory is rejected as a start point"));
                return out;
            };
            let bu = match audit(&b.tap, dim, &o, None) {
                Ok(x) => x,
                Err(m) => {
                    out.violate("C01/mirror_tree_building_differs_from_reference", format!("from state {j}: {m}"));
                    return out;
                }
            };
            if bu.near_tie || bu.weight_tie {
                out.probe("near_tie_skipped", 1);
                continue;
            }
            mirrored += 1;
            let shifted = (bu.block.0 + j, bu.block.1 + j);
            if ob.depth != outcome.depth || bu.reason != au.reason || shifted != au.block {
                out.violate(
                    "C01/mirrored_trajectory_differs",
                    format!("from state {j} with mirrored doubling choices: depth {} reason {:?} block {:?} (in the original numbering {:?}); original: depth {} reason {:?} block {:?}", ob.depth, bu.reason, bu.block, shifted, outcome.depth, au.reason, au.block),
                );
                return out;
            }
            // same states
            for t in b.tap.iter().filter(|t| !t.failed) {
                let Some(orig) = a.tap.iter().find(|s| s.index == t.index + j && !s.failed) else {
                    out.violate("C01/mirrored_trajectory_visits_other_states", format!("from state {j}: visited index {} has no counterpart", t.index + j));
                    return out;
                };
                for i in 0..dim {
                    // forward and backward integration are not bitwise inverse and the error is amplified
                    // along the orbit: "same state" = within 1e-3 of the orbit's extent in that coordinate
                    // (a different trajectory differs by the extent itself)
                    let (mn, mx) = a.tap.iter().filter(|s| !s.failed).fold((f64::INFINITY, f64::NEG_INFINITY), |(p, q), s| (p.min(s.x[i]), q.max(s.x[i])));
                    let tol = 1e-3 * (mx - mn) + 1e-9 * (1.0 + orig.x[i].abs());
                    if (orig.x[i] - t.x[i]).abs() > tol {
                        out.violate("C01/mirrored_trajectory_visits_other_states", format!("from state {j}: index {} coordinate {i}: {:e} vs {:e}", t.index + j, t.x[i], orig.x[i]));
                        return out;
                    }
                }
            }
        }
        out.probe("mirrored_starts_checked", mirrored);
        out
    }

    fn shrink(&self) -> Vec<Self> {
        let mut v = vec![];
        if self.maxdepth > 1 {
            let mut s = self.clone();
            s.maxdepth -= 1;
            v.push(s);
        }
        if let TransformSpec::LowRank { stds, mean, .. } = &self.transform {
            let mut s = self.clone();
            s.transform = TransformSpec::Diag { stds: stds.clone(), mean: mean.clone() };
            v.push(s);
        }
        let d = self.target.dim();
        if self.target != crate::density::std_normal(d) {
            let mut s = self.clone();
            s.target = crate::density::std_normal(d);
            v.push(s);
        }
        v
    }

    fn describe(&self) -> J {
        json!({"target": format!("{:?}", self.target).chars().take(120).collect::<String>(), "dim": self.target.dim(), "transform": match &self.transform { TransformSpec::Diag { .. } => "diag".to_string(), TransformSpec::LowRank { vals, .. } => format!("lowrank(rank {})", vals.len()) },
               "kinetic": if self.exact_normal { "ExactNormal" } else { "Euclidean" }, "step_size": self.step_size, "maxdepth": self.maxdepth, "dirs": self.dirs.iter().map(|d| (*d as i32) < 0).collect::<Vec<_>>()})
    }
}

pub fn gen_nuts_scenario(seed: u64) -> NutsScenario {
    let mut r = Prng::sub(seed, "c01");
    let d = r.usize_in(1, 8);
    let target = match r.below(5) {
        0 => crate::density::std_normal(d),
        1 => Target::DiagNormal { mu: (0..d).map(|_| r.uniform(-2.0, 2.0)).collect(), sigma: (0..d).map(|_| r.log_uniform(0.1, 10.0)).collect() },
        2 => { let eig: Vec<f64> = (0..d).map(|_| r.log_uniform(0.1, 10.0)).collect(); let mu = (0..d).map(|_| r.uniform(-1.0, 1.0)).collect(); crate::density::dense_normal(&mut r, mu, &eig).0 }
        3 => Target::StudentT { nu: r.uniform(3.0, 20.0), mu: vec![0.0; d], scale: (0..d).map(|_| r.log_uniform(0.3, 3.0)).collect() },
        _ => Target::Banana { dim: d, b: r.uniform(0.1, 1.0) },
    };
    let transform = gen_transform(&mut r, d, true);
    let maxdepth = r.range(1, 6);
    let x0 = crate::swarm::init_point(&mut r, &target);
    let v0: Vec<f64> = (0..d).map(|_| r.normal()).collect();
    // the step size is relative to the whitened scale of the target: keep the energy spread small
    let step_size = r.log_uniform(0.01, 0.5);
    NutsScenario {
        target,
        transform,
        exact_normal: r.chance(0.3),
        step_size,
        maxdepth,
        x0,
        v0,
        dirs: (0..maxdepth + 2).map(|_| { let x = r.next_u64() as u32; if r.chance(0.1) { *r.pick(&[0u32, 0x7fff_ffff, 0x8000_0000, 0xffff_ffff]) } else { x } }).collect(),
        us: (0..200).map(|_| r.next_u64()).collect(),
    }
}

// ------------------------------------------------------------------------------------------------
// C02

#[derive(Clone, Debug, Serialize, Deserialize)]
pub struct LeapfrogScenario {
    pub target: Target,
    pub transform: TransformSpec,
    /// 0 Euclidean, 1 ExactNormal, 2 Microcanonical
    pub kind: u8,
    pub step_size: f64,
    pub x0: Vec<f64>,
    pub v0: Vec<f64>,
    pub forward: Vec<bool>,
}

impl Scenario for LeapfrogScenario {
    fn run(&self) -> RunOutcome {
        let mut out = RunOutcome::default();
        let n = self.target.dim();
        let log = new_log(true);
        let density = SimDensity::new(self.target.clone(), vec![], log.clone());
        let events: crate::simmath::MathLog = Default::default();
        let mut math = SimMath::new(CpuMath::new(density), log.clone(), events);
        math.scripted_gaussian.lock().unwrap().push_back(self.v0.clone());
        let mut rng = ScriptedRng { u32s: Default::default(), u64s: Default::default(), calls: vec![], exhausted: false };
        let kind = match self.kind {
            1 => KineticEnergyKind::ExactNormal,
            2 => KineticEnergyKind::Microcanonical,
            _ => KineticEnergyKind::Euclidean,
        };
        nuts_rs::verif::tap_enable();
        let r = nuts_rs::verif::leapfrog_sequence(&mut math, &self.transform.to_verif(), kind, self.step_size, &self.x0, &mut rng, &self.forward);
        let tap = nuts_rs::verif::tap_take();
        nuts_rs::verif::tap_disable();
        let mut dg = Digest::new();
        for t in &tap {
            dg.f64s(&t.x);
        }
        out.digest = dg.0;
        out.sim_evals = tap.len() as u64;
        if r.is_err() || tap.len() != self.forward.len() + 1 {
            out.probe("sequence_not_completed", 1);
            return out;
        }
        if tap.iter().any(|t| t.x.iter().chain(&t.v).chain(&t.gx).chain(&t.y).any(|z| !z.is_finite()) || !t.energy.is_finite()) {
            out.probe("overflow_skipped", 1);
            return out;
        }
        if self.kind == 2 {
            // conditioning of the closed-form ESH kick: with delta = sqrt(d) eps/2 |g_y| / (d-1) the update combines
            // terms of size exp(2|delta|) for a backward step; beyond |delta| ~ 5 neither the implementation nor
            // the reference resolves the momentum (such steps have energy errors of (d-1)|delta| and diverge)
            let sd = (n as f64).sqrt();
            let dmax = tap.iter().map(|t| sd * self.step_size / 2.0 * t.gy.iter().map(|g| g * g).sum::<f64>().sqrt() / (n as f64 - 1.0).max(1.0)).fold(0.0, f64::max);
            if !(dmax <= 5.0) {
                out.probe("microcanonical_large_kick_skipped", 1);
                return out;
            }
            out.probe("microcanonical_sequences_checked", 1);
        }
        let kname = match self.kind { 1 => "exact_normal", 2 => "microcanonical", _ => "euclidean" };
        let tname = match &self.transform { TransformSpec::Diag { .. } => "diag", TransformSpec::LowRank { .. } => "lowrank" };
        let f = self.transform.jacobian();
        let scale_of = |v: &[f64]| v.iter().fold(0.0f64, |a, x| a.max(x.abs()));
        // the bijection: x = F(y) for every visited state, and logdet as documented
        for (k, t) in tap.iter().enumerate() {
            let x = self.transform.forward(&t.y);
            for i in 0..n {
                let tol = 1e-9 * (1.0 + scale_of(&t.x) + scale_of(&x));
                if (x[i] - t.x[i]).abs() > tol {
                    out.violate(format!("C02/inverse_not_consistent_with_forward_map/{tname}"), format!("state {k}: x = {:?} but F(y) = {:?} for its whitened coordinates y = {:?}", t.x, x, t.y));
                    return out;
                }
            }
            let ld = self.transform.logdet_inv();
            if (t.logdet - ld).abs() > 1e-9 * (1.0 + ld.abs()) {
                out.violate(format!("C02/log_determinant/{tname}"), format!("state {k}: logdet {:e}, -sum ln sigma - 1/2 sum ln lambda = {ld:e}", t.logdet));
                return out;
            }
            // gradient pull-back: g_y = F^T g_x
            for j in 0..n {
                let gy: f64 = (0..n).map(|i| f[i * n + j] * t.gx[i]).sum();
                if (gy - t.gy[j]).abs() > 1e-9 * (1.0 + scale_of(&t.gy)) {
                    out.violate(format!("C02/gradient_pull_back/{tname}"), format!("state {k}: whitened gradient {:?}, F^T grad = component {j}: {gy:e}", t.gy));
                    return out;
                }
            }
            // energy = 1/2 |v|^2 - logp - logdet
            if self.kind == 2 {
                // microcanonical: unit momentum, energy = accumulated kinetic energy - logp - logdet
                let vn = t.v.iter().map(|v| v * v).sum::<f64>().sqrt();
                if (vn - 1.0).abs() > 1e-9 {
                    out.violate("C02/microcanonical_momentum_not_unit".to_string(), format!("state {k}: |v| = {vn:e}"));
                    return out;
                }
                let e = t.kinetic - t.logp - t.logdet;
                if (e - t.energy).abs() > 1e-9 * (1.0 + e.abs() + t.kinetic.abs()) {
                    out.violate(format!("C02/energy/{kname}"), format!("state {k}: energy {:e}, kinetic - logp - logdet = {e:e}", t.energy));
                    return out;
                }
                continue;
            }
            let e = 0.5 * t.v.iter().map(|v| v * v).sum::<f64>() - t.logp - t.logdet;
            if (e - t.energy).abs() > 1e-9 * (1.0 + e.abs()) {
                out.violate(format!("C02/energy/{kname}"), format!("state {k}: energy {:e}, 1/2|v|^2 - logp - logdet = {e:e}", t.energy));
                return out;
            }
        }
        // each step equals the textbook step in the original space for M^-1 = F F^T
        let minv: Vec<f64> = {
            let mut m = vec![0.0; n * n];
            for i in 0..n {
                for j in 0..n {
                    m[i * n + j] = (0..n).map(|k| f[i * n + k] * f[j * n + k]).sum();
                }
            }
            m
        };
        let mut grad = vec![0.0; n];
        for (k, fwd) in self.forward.iter().enumerate() {
            let s = &tap[k];
            let e = &tap[k + 1];
            let eps = if *fwd { self.step_size } else { -self.step_size };
            if self.kind == 0 {
                // p = F^-T v  <=>  v = F^T p ; work with M^-1 p = F v
                // textbook: p_half = p + eps/2 grad(x); x' = x + eps M^-1 p_half
                // M^-1 p_half = F v + eps/2 M^-1 grad(x)
                let fv: Vec<f64> = (0..n).map(|i| (0..n).map(|j| f[i * n + j] * s.v[j]).sum()).collect();
                let mg: Vec<f64> = (0..n).map(|i| (0..n).map(|j| minv[i * n + j] * s.gx[j]).sum()).collect();
                let x1: Vec<f64> = (0..n).map(|i| s.x[i] + eps * (fv[i] + 0.5 * eps * mg[i])).collect();
                for i in 0..n {
                    // rounding is relative to the largest term of the update (the implementation works in the
                    // whitened coordinates, where the same terms appear divided by the scales)
                    let terms = s.x[i].abs() + (eps * fv[i]).abs() + (0.5 * eps * eps * mg[i]).abs() + x1[i].abs();
                    let tol = 1e-8 * (1.0 + terms) + 1e-10 * (scale_of(&fv) * eps.abs() + scale_of(&mg) * eps * eps);
                    if (x1[i] - e.x[i]).abs() > tol {
                        out.violate(format!("C02/position_step_differs_from_textbook_leapfrog/{tname}"), format!("step {k} ({}): reference x' = {:?}, implementation {:?}", if *fwd { "forward" } else { "backward" }, x1, e.x));
                        return out;
                    }
                }
                // momentum: v' = v + eps/2 F^T (grad(x) + grad(x'))
                let _ = self.target.logp(&x1, &mut grad);
                for j in 0..n {
                    let add: f64 = (0..n).map(|i| f[i * n + j] * (s.gx[i] + e.gx[i])).sum();
                    let v1 = s.v[j] + 0.5 * eps * add;
                    let mag: f64 = (0..n).map(|i| (f[i * n + j] * s.gx[i]).abs() + (f[i * n + j] * e.gx[i]).abs()).sum::<f64>() * 0.5 * eps.abs();
                    if (v1 - e.v[j]).abs() > 1e-8 * (1.0 + scale_of(&e.v) + v1.abs() + mag) {
                        out.violate(format!("C02/momentum_step_differs_from_textbook_leapfrog/{tname}"), format!("step {k}: reference v'[{j}] = {v1:e}, implementation {:e}", e.v[j]));
                        return out;
                    }
                }
            } else if self.kind == 2 {
                // Microcanonical: closed-form ESH half kick, drift y' = y + eps sqrt(d) v, half kick
                // (both signs of eps: a backward step is the forward step of the time-reversed flow)
                let sd = (n as f64).sqrt();
                let gn = s.gy.iter().map(|g| g * g).sum::<f64>().sqrt();
                let gn1 = e.gy.iter().map(|g| g * g).sum::<f64>().sqrt();
                if !(gn > 1e-12 && gn1 > 1e-12) {
                    out.probe("microcanonical_zero_gradient_skipped", 1);
                    continue;
                }
                let (v_h, dke1, cond1, _) = crate::props_mclmc::ref_esh(&s.gy, &s.v, sd * eps / 2.0);
                let y1: Vec<f64> = (0..n).map(|i| s.y[i] + eps * sd * v_h[i]).collect();
                let (v1, dke2, cond2, _) = crate::props_mclmc::ref_esh(&e.gy, &v_h, sd * eps / 2.0);
                if cond1.abs() < 1e-6 || cond2.abs() < 1e-6 {
                    out.probe("microcanonical_ill_conditioned_skipped", 1);
                    continue;
                }
                for i in 0..n {
                    if (y1[i] - e.y[i]).abs() > 1e-8 * (1.0 + scale_of(&e.y) + (eps * sd).abs()) {
                        out.violate(format!("C02/microcanonical_position_step/{tname}"), format!("step {k} ({}): reference y'[{i}] = {:e}, implementation {:e}", if *fwd { "forward" } else { "backward" }, y1[i], e.y[i]));
                        return out;
                    }
                    if (v1[i] - e.v[i]).abs() > 1e-7 / cond1.abs().min(cond2.abs()).min(1.0) {
                        out.violate(format!("C02/microcanonical_momentum_step/{tname}"), format!("step {k} ({}): reference v'[{i}] = {:e}, implementation {:e} (closed-form ESH half kicks with step sqrt(d) eps / 2 = {:e})", if *fwd { "forward" } else { "backward" }, v1[i], e.v[i], sd * eps / 2.0));
                        return out;
                    }
                }
                let dk = e.kinetic - s.kinetic;
                if (dk - (dke1 + dke2)).abs() > 1e-7 * (1.0 + dke1.abs() + dke2.abs()) * n as f64 / cond1.abs().min(cond2.abs()).min(1.0) {
                    out.violate(format!("C02/microcanonical_kinetic_energy_change/{tname}"), format!("step {k} ({}): kinetic energy changed by {dk:e}, closed form {:e}", if *fwd { "forward" } else { "backward" }, dke1 + dke2));
                    return out;
                }
            } else {
                // ExactNormal: kick with the residual force (y + g_y), rotate (y, v), kick again
                let v_h: Vec<f64> = (0..n).map(|i| s.v[i] + 0.5 * eps * (s.y[i] + s.gy[i])).collect();
                let (sn, cs) = eps.sin_cos();
                let y1: Vec<f64> = (0..n).map(|i| s.y[i] * cs + v_h[i] * sn).collect();
                let v_r: Vec<f64> = (0..n).map(|i| -s.y[i] * sn + v_h[i] * cs).collect();
                let kick = (0..n).map(|i| (0.5 * eps * (s.y[i] + s.gy[i])).abs()).fold(0.0, f64::max) + (0..n).map(|i| (0.5 * eps * (e.y[i] + e.gy[i])).abs()).fold(0.0, f64::max);
                for i in 0..n {
                    if (y1[i] - e.y[i]).abs() > 1e-8 * (1.0 + scale_of(&e.y) + scale_of(&s.v) + kick) {
                        out.violate(format!("C02/exact_normal_position_step/{tname}"), format!("step {k}: reference y'[{i}] = {:e}, implementation {:e}", y1[i], e.y[i]));
                        return out;
                    }
                    let v1 = v_r[i] + 0.5 * eps * (e.y[i] + e.gy[i]);
                    if (v1 - e.v[i]).abs() > 1e-8 * (1.0 + scale_of(&e.v) + scale_of(&s.y) + kick) {
                        out.violate(format!("C02/exact_normal_momentum_step/{tname}"), format!("step {k}: reference v'[{i}] = {v1:e}, implementation {:e}", e.v[i]));
                        return out;
                    }
                }
            }
            out.probe("steps_compared", 1);
        }
        // time reversibility: a forward step followed by a backward step returns the start
        for k in 0..self.forward.len().saturating_sub(1) {
            if self.forward[k] != self.forward[k + 1] {
                let a = &tap[k];
                let b = &tap[k + 2];
                // largest intermediate magnitude of the two steps, in original coordinates
                let fmax = f.iter().fold(0.0f64, |m, x| m.max(x.abs()));
                let interm = scale_of(&a.x) + scale_of(&tap[k + 1].x) + fmax * self.step_size * (scale_of(&a.v) + scale_of(&tap[k + 1].v)) + fmax * fmax * self.step_size * self.step_size * (scale_of(&a.gx) + scale_of(&tap[k + 1].gx)) * n as f64;
                for i in 0..n {
                    if (a.x[i] - b.x[i]).abs() > 1e-7 * (1.0 + interm) {
                        out.violate(format!("C02/not_time_reversible/{kname}"), format!("steps {k},{}: start {:?}, after forward+backward {:?}", k + 1, a.x, b.x));
                        return out;
                    }
                }
                out.probe("round_trips_checked", 1);
            }
        }
        // ExactNormal conserves the energy exactly on a standard normal target with identity transform
        if self.kind == 1 && self.target == crate::density::std_normal(n) {
            if let TransformSpec::Diag { stds, mean } = &self.transform {
                if stds.iter().all(|s| *s == 1.0) && mean.iter().all(|m| *m == 0.0) {
                    for t in &tap {
                        if (t.energy - tap[0].energy).abs() > 1e-11 * (1.0 + tap[0].energy.abs()) {
                            out.violate("C02/exact_normal_energy_drift", format!("energy {:e} -> {:e}", tap[0].energy, t.energy));
                            return out;
                        }
                    }
                    out.probe("exact_energy_conservation_checked", 1);
                }
            }
        }
        out.nontrivial = true;
        out
    }

    fn describe(&self) -> J {
        json!({"target": format!("{:?}", self.target).chars().take(120).collect::<String>(), "dim": self.target.dim(), "transform": match &self.transform { TransformSpec::Diag { .. } => "diag".to_string(), TransformSpec::LowRank { vals, .. } => format!("lowrank(rank {})", vals.len()) },
               "kind": self.kind, "step_size": self.step_size, "forward": self.forward})
    }
}

pub fn gen_leapfrog_scenario(seed: u64) -> LeapfrogScenario {
    let mut r = Prng::sub(seed, "c02");
    if r.chance(0.06) {
        // many coordinates with a common extreme scale, target matched to the transformation (the whitened
        // problem is a standard normal): products of scales leave the f64 range although every scale, the
        // map, its inverse and the log-determinant (a sum of logarithms) are perfectly representable
        let d = r.usize_in(24, 64);
        let s = 10f64.powf(r.uniform(-9.0, 9.0));
        let stds: Vec<f64> = (0..d).map(|_| s * r.uniform(0.5, 2.0)).collect();
        let mean: Vec<f64> = (0..d).map(|_| s * r.uniform(-1.0, 1.0)).collect();
        let x0: Vec<f64> = (0..d).map(|i| mean[i] + stds[i] * r.normal()).collect();
        let v0: Vec<f64> = (0..d).map(|_| r.normal()).collect();
        let forward = vec![true, false, true, true];
        let kind = if r.chance(0.5) { 1 } else { 0 };
        return LeapfrogScenario { target: Target::DiagNormal { mu: mean.clone(), sigma: stds.clone() }, transform: TransformSpec::Diag { stds, mean }, kind, step_size: r.log_uniform(0.05, 0.3), x0, v0, forward };
    }
    let d = if r.chance(0.85) { r.usize_in(1, 10) } else { r.usize_in(11, 64) };
    let target = match r.below(5) {
        0 => crate::density::std_normal(d),
        1 => Target::DiagNormal { mu: (0..d).map(|_| r.uniform(-2.0, 2.0)).collect(), sigma: (0..d).map(|_| r.log_uniform(0.1, 10.0)).collect() },
        2 => Target::StudentT { nu: r.uniform(3.0, 20.0), mu: vec![0.0; d], scale: (0..d).map(|_| r.log_uniform(0.3, 3.0)).collect() },
        3 => Target::LogGamma { a: (0..d).map(|_| r.uniform(1.0, 5.0)).collect() },
        _ => Target::Banana { dim: d, b: r.uniform(0.1, 1.0) },
    };
    // (the microcanonical kind needs dimension >= 2)
    let kind = match r.below(20) {
        0..=6 => 1,
        7..=11 if d >= 2 => 2,
        _ => 0,
    };
    let transform = if kind == 1 && target == crate::density::std_normal(d) && r.chance(0.5) {
        TransformSpec::Diag { stds: vec![1.0; d], mean: vec![0.0; d] }
    } else {
        gen_transform(&mut r, d, d <= 24)
    };
    let x0 = crate::swarm::init_point(&mut r, &target);
    let v0: Vec<f64> = (0..d).map(|_| r.normal()).collect();
    let n = r.range(2, 8);
    let mut forward = vec![];
    let mut cur = r.chance(0.5);
    for _ in 0..n {
        if r.chance(0.4) {
            cur = !cur;
        }
        forward.push(cur);
    }
    LeapfrogScenario { target, transform, kind, step_size: r.log_uniform(0.005, 0.3), x0, v0, forward }
}

#[allow(dead_code)]
fn _unused(_: Arc<Mutex<u8>>) {}
