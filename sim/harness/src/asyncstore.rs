//! Async Zarr store seam: an in-memory store behind the zarrs async traits whose writes complete
//! after a seeded (real-time) delay and can be made to fail. tokio itself is NOT under the simulator
//! (DESIGN.md §9): the delays make "a write that flush()/finalize did not wait for" visible, because a
//! snapshot taken right after the call returns cannot contain a write that is still sleeping.

use std::sync::atomic::{AtomicU64, Ordering};
use std::sync::{Arc, Mutex};
use std::time::Duration;

use async_trait::async_trait;
use futures::StreamExt;
use zarrs::storage::byte_range::ByteRangeIterator;
use zarrs::storage::store::MemoryStore;
use zarrs::storage::{
    AsyncListableStorageTraits, AsyncMaybeBytesIterator, AsyncReadableStorageTraits, AsyncWritableStorageTraits, Bytes, ListableStorageTraits, OffsetBytesIterator, ReadableStorageTraits,
    StorageError, StoreKey, StoreKeys, StoreKeysPrefixes, StorePrefix, WritableStorageTraits,
};

pub struct AsyncDelayStore {
    pub inner: Arc<MemoryStore>,
    pub seed: u64,
    /// delays start only once armed (metadata creation in new_trace is not delayed)
    pub armed: std::sync::atomic::AtomicBool,
    pub writes: AtomicU64,
    pub delayed: AtomicU64,
    pub fail_at: Option<u64>,
    pub failed: std::sync::atomic::AtomicBool,
    pub max_delay_ms: u64,
    pub log: Mutex<Vec<String>>,
    /// crash points between store writes: (number of flushes that had returned, store content) after every write
    pub keep_snapshots: std::sync::atomic::AtomicBool,
    pub snap: Mutex<SnapState>,
}

#[derive(Default)]
pub struct SnapState {
    pub acks: usize,
    /// (flushes that had returned, write counter, the write) for every successful write, in the order they reached the store
    pub log: Vec<(usize, u64, crate::storesim::WriteRec)>,
}

impl AsyncDelayStore {
    pub fn new(seed: u64, fail_at: Option<u64>, max_delay_ms: u64) -> Self {
        AsyncDelayStore {
            inner: Arc::new(MemoryStore::new()),
            seed,
            armed: std::sync::atomic::AtomicBool::new(false),
            writes: AtomicU64::new(0),
            delayed: AtomicU64::new(0),
            fail_at,
            failed: std::sync::atomic::AtomicBool::new(false),
            max_delay_ms,
            log: Mutex::new(vec![]),
            keep_snapshots: std::sync::atomic::AtomicBool::new(false),
            snap: Mutex::new(SnapState::default()),
        }
    }
    /// the driver calls this when a flush has returned
    pub fn acknowledge(&self) {
        self.snap.lock().unwrap().acks += 1;
    }
    /// apply one write to the inner store; with crash points enabled the write and the snapshot after it are
    /// one atomic step with respect to other writes and to acknowledgements
    fn apply(&self, f: impl FnOnce(&MemoryStore) -> Result<(), StorageError>, rec: impl FnOnce(&MemoryStore) -> crate::storesim::WriteRec) -> Result<(), StorageError> {
        if !self.keep_snapshots.load(Ordering::SeqCst) {
            return f(&self.inner);
        }
        let mut g = self.snap.lock().unwrap();
        let r = f(&self.inner);
        if r.is_ok() {
            let k = self.writes.load(Ordering::SeqCst);
            let acks = g.acks;
            g.log.push((acks, k, rec(&self.inner)));
        }
        r
    }
    fn delay_for(&self, key: &StoreKey, len: usize) -> u64 {
        if !self.armed.load(Ordering::SeqCst) || self.max_delay_ms == 0 {
            return 0;
        }
        // a function of (seed, key, payload size): the same write gets the same delay in every run
        let h = crate::prng::splitmix64(self.seed ^ crate::prng::label_hash(key.as_str()) ^ (len as u64).wrapping_mul(0x9E37));
        if h % 4 == 0 { 1 + (h >> 8) % self.max_delay_ms } else { 0 }
    }
    async fn before_write(&self, key: &StoreKey, len: usize) -> Result<(), StorageError> {
        let k = self.writes.fetch_add(1, Ordering::SeqCst);
        if self.fail_at == Some(k) && self.armed.load(Ordering::SeqCst) {
            self.failed.store(true, Ordering::SeqCst);
            return Err(StorageError::Other(format!("simulated async store write failure at write {k}")));
        }
        let d = self.delay_for(key, len);
        if d > 0 {
            self.delayed.fetch_add(1, Ordering::SeqCst);
            tokio::time::sleep(Duration::from_millis(d)).await;
        }
        Ok(())
    }
}

#[async_trait]
impl AsyncReadableStorageTraits for AsyncDelayStore {
    async fn get_partial_many<'a>(&'a self, key: &StoreKey, byte_ranges: ByteRangeIterator<'a>) -> Result<AsyncMaybeBytesIterator<'a>, StorageError> {
        match self.inner.get_partial_many(key, byte_ranges)? {
            None => Ok(None),
            Some(it) => {
                let v: Vec<Result<Bytes, StorageError>> = it.collect();
                Ok(Some(futures::stream::iter(v).boxed()))
            }
        }
    }
    async fn size_key(&self, key: &StoreKey) -> Result<Option<u64>, StorageError> {
        self.inner.size_key(key)
    }
    fn supports_get_partial(&self) -> bool {
        self.inner.supports_get_partial()
    }
}

#[async_trait]
impl AsyncListableStorageTraits for AsyncDelayStore {
    async fn list(&self) -> Result<StoreKeys, StorageError> {
        self.inner.list()
    }
    async fn list_prefix(&self, prefix: &StorePrefix) -> Result<StoreKeys, StorageError> {
        self.inner.list_prefix(prefix)
    }
    async fn list_dir(&self, prefix: &StorePrefix) -> Result<StoreKeysPrefixes, StorageError> {
        self.inner.list_dir(prefix)
    }
    async fn size_prefix(&self, prefix: &StorePrefix) -> Result<u64, StorageError> {
        self.inner.size_prefix(prefix)
    }
}

#[async_trait]
impl AsyncWritableStorageTraits for AsyncDelayStore {
    async fn set(&self, key: &StoreKey, value: Bytes) -> Result<(), StorageError> {
        self.before_write(key, value.len()).await?;
        { let copy = value.clone(); self.apply(|st| st.set(key, value), |_| crate::storesim::WriteRec::Set(key.clone(), copy)) }
    }
    async fn set_partial_many<'a>(&'a self, key: &StoreKey, offset_values: OffsetBytesIterator<'a>) -> Result<(), StorageError> {
        self.before_write(key, 0).await?;
        self.apply(|st| st.set_partial_many(key, offset_values), |st| crate::storesim::WriteRec::Set(key.clone(), st.get(key).ok().flatten().unwrap_or_default()))
    }
    async fn erase(&self, key: &StoreKey) -> Result<(), StorageError> {
        self.before_write(key, 0).await?;
        self.apply(|st| st.erase(key), |_| crate::storesim::WriteRec::Erase(key.clone()))
    }
    async fn erase_prefix(&self, prefix: &StorePrefix) -> Result<(), StorageError> {
        self.apply(|st| st.erase_prefix(prefix), |_| crate::storesim::WriteRec::ErasePrefix(prefix.clone()))
    }
    fn supports_set_partial(&self) -> bool {
        self.inner.supports_set_partial()
    }
}
