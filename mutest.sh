#!/usr/bin/env bash
# usage: mutest.sh <file-in-repo> <python-expr old> <new> -- <props...>   (applies a textual mutation to /repo, runs checks, reverts)
set -u
file="$1"; old="$2"; new="$3"; shift 3; [ "$1" == "--" ] && shift
python3 - "$file" "$old" "$new" <<'PY'
import sys
p='/repo/'+sys.argv[1]; s=open(p).read()
old=sys.argv[2]; new=sys.argv[3]
assert old in s, "pattern not found"
open(p,'w').write(s.replace(old,new,1))
PY
[ $? -ne 0 ] && { echo "mutation failed"; exit 2; }
for p in "$@"; do
  VERIF_ROOT=/tmp/mutest_root /verif/check "$p" 2>&1 | grep -E "VIOLATION|key:|quick:|HARNESS|KNOWN" | cut -c1-260 | head -12
done
git -C /repo checkout -- .
(cd /verif/sim && CARGO_NET_OFFLINE=true cargo build --release --offline >/dev/null 2>&1)
