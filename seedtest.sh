#!/usr/bin/env bash
# usage: seedtest.sh <patch.diff> <props...> : apply a seeded change to /repo, run the checks, undo it
patch="$1"; shift
git -C /repo apply "$patch" || { echo "apply failed"; exit 2; }
for p in "$@"; do
  /verif/check "$p" 2>&1 | grep -E "VIOLATION|key:|detail:|quick:|HARNESS|KNOWN" | cut -c1-300 | head -14
done
git -C /repo checkout -- . 
git -C /verif checkout -- evidence 2>/dev/null
# leave a clean build behind (the binary in .build is the mutant's otherwise)
(cd /verif/sim && CARGO_NET_OFFLINE=true cargo build --release --offline >/dev/null 2>&1)
