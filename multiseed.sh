#!/usr/bin/env bash
# usage: multiseed.sh "<seeds>" [props...] — runs a private copy of the built binary for several VERIF_SEED
# values (evidence and replays go to a scratch root) and lists every alarm. Used to keep the false-alarm
# rate on the unchanged tree at zero for seeds other than the default one.
seeds="$1"; shift
props="${@:-C01 C02 C03 C04 C05 C06 C07 C08 C09 C10 C11 C12 C13 C14 C15 C16 C18}"
root=/tmp/ms_root_$$; mkdir -p "$root"; cp /verif/known_findings.jsonl "$root"/
snap=/tmp/nutsim_copy_$$
cp /verif/.build/release/nutsim "$snap"
for s in $seeds; do
  for p in $props; do
    out=$(VERIF_ROOT=$root "$snap" check "$p" --seed "$s" 2>&1)
    code=$?
    line=$(echo "$out" | grep -E "quick:|thorough:" | tail -1)
    echo "seed=$s $p exit=$code $line"
    if [ $code -ne 0 ]; then echo "$out" | grep -E "key:|detail:|HARNESS" | cut -c1-400 | head -12; fi
  done
done
rm -rf "$snap" "$root"
