#!/usr/bin/env python3
"""Generates /verif/MANIFEST.json from the table below (kept in one place so it stays valid)."""
import json, subprocess, os

ROOT = os.path.dirname(os.path.abspath(__file__))

ENGINE_A = "chainsim"
ENGINE_B = "schedsim"
ENGINE_C = "storesim"

# property -> (engine, category, technique, level text, level note, design ref)
CLAIMED = {
    "C01": (ENGINE_A, "exploration",
            "direct drive of the real nuts::draw (hook H3) with every random decision scripted by the simulator (directions, selection thresholds, momentum); refinement against the index-based reference RefNuts; mirrored re-execution from every state of the trajectory",
            "Per scenario (target, explicit diagonal / low-rank transformation, Euclidean / ExactNormal, step size, maxdepth 1..6, start, momentum, direction script, threshold script): R1 the real nuts::draw re-run from every state of the final block with the mirrored doubling choices visits the same states with the same depth and stopping reason; R2 with the same thresholds the implementation selects the index the reference selection law selects and draws random numbers in the predicted sequence; R3 the direction is the sign bit of the raw uniform draw (probability exactly 1/2); the tree building equals RefNuts. Stationarity batch: 20000 (thorough 60000) independent particles start from exact i.i.d. draws of the target and make 1/3/6 real transitions with a fixed transformation and step size; per coordinate and for the log density the fraction below the quantiles of an independent reference sample must stay binomial around 5/25/50/75/95% (z statistic, critical 6) - holds for every invariant kernel whatever its mixing speed. Batch stationarity_equal_weights: on energy-conserving orbits (ExactNormal on a standard normal, identity transformation; the weight ties the scripted batch has to skip) the draw of a complete tree of depth >= 2 must come from the last accepted doubling and lie in the newer half of that sub-tree with probability 1/2 (z statistic, critical 6).",
            "Detailed balance of the reference kernel itself is the algebra of DESIGN.md Appendix A; numerically it is backed by the stationarity batch (which would also see a bias of the reference law). Divergent trajectories are outside the quantifier; near-ties and numerically unstable orbits (energy spread > 2) are skipped for R1 and counted.",
            "DESIGN.md §5 C01, Appendix A"),
    "C02": (ENGINE_A, "exploration",
            "direct drive of the real Hamiltonian::leapfrog (hook H3) from a scripted momentum, every visited state (trajectory tap) compared with a dense-matrix reference; plus seeded simulation of real chains (all presets, density fault injection, MCLMC step-size retries) whose trajectory taps are audited state by state",
            "Sequences of single leapfrog steps of both signs for explicit diagonal / low-rank transformations (dimension 1..64, rank 0..d) and the three kinetic energies: x = F(y)+mu for every state (inverse consistent with the forward map), gradient pull-back, documented log-determinant, energy, each step equals the textbook leapfrog in the original space for M^-1 = F F^T (ExactNormal: residual kick / rotation / kick; Microcanonical: unit momentum, closed-form ESH half kick / drift sqrt(d) eps v / half kick for both signs, kinetic-energy change), forward+backward returns the start, ExactNormal conserves the energy on a standard normal. Batch real_runs: in real chains with adaptation, injected faults and dynamic step-size retries every state a leapfrog produced is the half-kick / drift / half-kick image, with the one step size reported for that leapfrog, of an earlier state of its trajectory, and all states of a trajectory (start state included) are related to their whitened coordinates by one affine map ((x_k - x_0).g_x,m = (y_k - y_0).g_y,m, equal log-determinants) - no knowledge of the transformation needed.",
            "Weak fit for the direct-drive part (a pure function of its inputs); the history-dependent part - re-derivation of whitened coordinates after a transformation change, step-size factors that change between consecutive steps, retries - is what the real_runs batch covers (MCLMC there runs with a momentum decoherence length of 1e300 so that the tap shows the velocity a step starts from). Volume preservation and the O(eps^2) order are not measured (they follow from equality with the textbook map). Microcanonical sequences with an ESH kick |delta| > 5 are skipped and counted (conditioning of the closed form for backward steps).",
            "DESIGN.md §5 C02"),
    "C03": (ENGINE_A, "exploration",
            "seeded simulation of single-chain histories with a record of every density evaluation and of every momentum draw (SimMath seam); per-draw membership and consistency oracle",
            "Seeded search over NUTS presets x maxdepth/mindepth/max_energy_error/target_integration_time/kinetic energy x targets (dimension 0 and 1 included) x histories with natural and injected divergences. Every returned draw must be the start or a fault-free evaluated position of its own trajectory (bitwise), its logp/gradient statistics must be what the density returned there, index 0 iff not moved, depth/steps/index bounds, at least one step, maxdepth flag; for Diag NUTS the first evaluated position of the next trajectory must be the reference-leapfrog image of the draw under the reported scales, step size and the observed momentum; for every preset the start state of each trajectory must be related to its whitened coordinates by the same affine map as the states the integrator produced from it (transformation-agnostic identity over the trajectory tap).",
            "With the trajectory tap (hook H3) RefNuts recomputes, from the visited states, the U-turn criterion of the whole trajectory and of every balanced sub-trajectory in build order and therefore where the doubling had to stop: reported depth, stop reason, maxdepth flag and the accepted block must match (near-ties skipped and counted). Whether a state is a divergence is decided by the harness from the tapped energies (error relative to the start of the trajectory above max_energy_error, or not a number) and compared with the integrator's flag; a third of the runs use a tight limit (0.05..3). extra_doublings>0 and target_integration_time are outside the audit.",
            "DESIGN.md §5 C03"),
    "C04": (ENGINE_A, "exploration",
            "seeded, exactly repeatable multi-chain simulation with default settings; between-chain t statistics against known moments; momentum observed at the delegating Math seam",
            "Cells = NUTS preset x kinetic energy x step-size method x target with known moments (isotropic / badly scaled / correlated Gaussians, Student-t, skewed log-gamma), 32 independently seeded chains each; mean, variance and quantile coverage per coordinate against the truth at a two-sided 1e-7 level with between-chain standard errors; no post-warmup divergences on well-conditioned (isotropic / correlated, condition number <= 400) Gaussians; trajectory-start momentum: KS distance to N(0,1) and independence of earlier draws. Stationarity batch as in C01 (invariance from exact draws, independent of mixing).",
            "Weak fit for the family (no schedule, no fault): the simulator contributes repeatability and the momentum seam. Biases below about one between-chain standard error (32 x 4000 draws) are invisible. Truth for non-Gaussian targets from 2e6 i.i.d. reference draws (its error is in the denominator).",
            "DESIGN.md §5 C04"),
    "C05": (ENGINE_A, "fault_enumeration",
            "fault injection at every density-evaluation index x every fault kind of sampled base runs, phase labels from a fault-free dry run of the same seed",
            "Per base run (all six presets) every evaluation index x {recoverable error, unrecoverable error, NaN, +inf, -inf value, NaN/inf gradient component, energy jump} is injected in turn, plus seeded fault pairs and a batch of longer runs with sampled positions. Oracle per API call: never a panic; unrecoverable => that call returns Err; recoverable-class fault at a trajectory leapfrog => Ok + divergence reported (or MCLMC retry) and the returned draw is the start or an earlier fault-free state with finite position and logp; at a search trial => Ok; afterwards all draws stay valid and scales/step sizes finite and positive.",
            "Base runs are sampled, positions enumerated (strided beyond 500 evaluations). For fault pairs only the first fault's phase is judged exactly.",
            "DESIGN.md §5 C05, Appendix D"),
    "C06": (ENGINE_A, "exploration",
            "seeded simulation of single-chain histories (swarm configurations, density fault injection) with history oracle",
            "Seeded search over configurations (all six presets, num_tune 0..2000 incl. every value 0..60, window fractions, step-size methods, jitter; a batch of runs whose trajectories never take a leapfrog step - maxdepth 0 or a model without parameters - judged for the tuning-draw count and the frozen transformation only) and over acceptance/divergence histories produced by a fault-injecting density stub; the oracle reads the recorded history of each run (Progress, statistics). Evidence, not proof: a clean batch means no explored history breaks the boundary.",
            "Trusts the harness density stubs and the formula for the start of the final step-size window taken from the public settings; observes only the public API.",
            "DESIGN.md §5 C06"),
    "C16": (ENGINE_A, "exploration",
            "seeded simulation of single-chain histories with fault injection; per-draw schema oracle",
            "Seeded search over presets x store_* flags x dimensions 0..130 x histories with divergences of every cause and transformation updates; every draw's statistics are compared with the declared schema.",
            "Schema = what Settings::stat_* report for the same math object; density stub trusted.",
            "DESIGN.md §5 C16"),
    "C07": (ENGINE_A, "exploration",
            "seeded simulation of adaptive chains; acceptance histories of every kind produced by the environment (fault injection of every kind: recoverable errors, NaN / inf values and gradients, energy jumps; ExactNormal on a standard normal, always-diverging densities); refinement of the reported step sizes against a reference dual-averaging / Adam recursion",
            "The reference recursion (ten lines: clamped iterate, count^-k weighted average; Adam) is fed the observed per-draw acceptance statistics - plain before the late phase, symmetric in it, the late phase decided from the hook-H4 window counters - and must reproduce step_size_bar and step_size of every warmup draw to 1e-8 (within the jitter band when jitter is on), re-synchronising on the result of a step-size search; every step size is finite and positive and the iterate never exceeds max_step_size; the acceptance statistics fed to the estimator are probabilities whenever the trajectory made a step; a closed-loop batch checks the post-warmup acceptance against a wide band around the target. Every step-size search (the initial one in set_position and the re-run after the first transformation change) is audited at the trajectory tap, which reports every one-step trial with its step size and energy: the step size in force afterwards must be a tried step whose acceptance exp(E0 - E) lies on the other side of the target than another trial at half, double or the same step (a divergent trial counts as 0), or lie beyond the search range, or be the documented fallback (initial_step after a divergent trial); tried steps are the initial step times powers of two.",
            "Monotonicity is a property of the reference recursion (argued in DESIGN.md); searches with a failed trial evaluation or an acceptance within 1e-12 of the target are counted, not judged. Runs whose first update is clamped cannot be initialised and are skipped (counted).",
            "DESIGN.md §5 C07"),
    "C08": (ENGINE_A, "exploration",
            "seeded simulation of adaptive chains on Gaussian and degenerate targets with fault-injected rejected draws; oracle on the reported transformation statistics",
            "Diag/LowRank presets with store_mass_matrix/store_transformed on: on diagonal Gaussians (condition number up to 1e12) every update built from >=4 accepted draws with non-degenerate spread recovers scales and mean to 1e-6 and the whitened gradient equals minus the whitened position; for every history (flat coordinates, piecewise-linear Laplace coordinates with constant gradient, scales 1e+-150, stuck chains, all-divergent windows) every reported scale / eigenvalue / mean is finite and positive and a coordinate whose estimate is invalid (no gradient variance) keeps its previous scale.",
            "Low-rank exactness is asserted with eigval_cutoff ~ 1 (every direction kept, as in the repository's own integration test): after warmup |y + grad_y|^2 <= 1e-8 (1 + |y|^2) on correlated Gaussians of dimension 2..10; with the default cut-off directions with rescaled eigenvalue in (1/2, 2) are left unwhitened by design. Windows with NaN/inf entries are not reachable through a chain and are not fed directly.",
            "DESIGN.md §5 C08"),
    "C09": (ENGINE_A, "exploration",
            "seeded simulation of adaptive chains with fault-injected rejected draws; window invariants checked on the strategy's counters (hook H4) after every draw, step-size search re-run seen at the Math seam",
            "Seeded search over num_tune 3..300, early/final window fractions, early/main switch frequencies, update frequency, growth factors 1..3, Diag/LowRank x NUTS/MCLMC and histories with every mixture of accepted and rejected draws (divergences injected by the density stub, hard targets). After every draw: the estimator counts move only as the history allows; a switch happens only with a full window AND room for the next (observed) window before the final step-size window; no switch is missed when even the largest admissible next window fits; foreground-background is constant between switches (no stale draws); for the diagonal strategy every reported transformation (scales and mean) equals the estimate computed by a reference from exactly the (draw, gradient) pairs of the current foreground window (a draw from before the last two switches would show), and for the low-rank strategy the repository's own estimator applied (hook H5) to the reference window reproduces the reported scales and eigenvalues; windows are early-sized in the early phase and grow geometrically afterwards; nothing is touched in the final window; the first transformation change re-runs the step-size search and later ones do not.",
            "Needs hooks H4 (read-only counters) and H5 (low-rank estimate for an explicit window). The rounding of the growth and the update frequency on non-switch draws are deliberately not pinned down. The symmetric statistic in the final window is covered by C07.",
            "DESIGN.md §5 C09, Appendix B"),
    "C10": (ENGINE_B, "exploration",
            "real Sampler as shuttle tasks under the harness's seeded scheduler; bitwise trace comparison against the system's own uninterrupted run",
            "Seeded search over thread interleavings (sticky-random and PCT-like scheduler personalities), num_cores 1..4, num_chains 1..6, six presets, user scripts with pause/resume/progress/flush/inspect at seeded points; every execution's per-chain records must equal, bit for bit, the uninterrupted single-core FIFO run, runs with one chain more/fewer must agree on the common chains, and no two chains may produce the same draws. A small batch uses models with 2^16..2^18 parameters (work the math back-end would only split up for large vectors). In two thirds of the runs the recording storage tees every call into the real HashMap or ndarray backend; its finalized trace must equal the uninterrupted run's and no backend call may fail.",
            "rayon is replaced by a FIFO worker-pool stand-in and std sync/thread/time by shuttle models + a simulated clock (nuts_rs_verif_rt); bounds: <=6 chains, <=16 draws per chain, dimension <=3 (wide batch: <=2 chains, <=5 draws). Work handed to rayon's global pool by code other than the sampler would run on 3 real threads outside the scheduler: detected as a trace difference, not replayable exactly.",
            "DESIGN.md §5 C10"),
    "C11": (ENGINE_B, "exploration",
            "real Sampler under the seeded scheduler; deadlock/livelock detection and history oracles over global event sequence numbers",
            "Seeded search over command sequences x interleavings x chains<,=,>cores x chain speeds x callback rates; invariants while running: no deadlock (all tasks blocked), step bound, every invoked call returns; afterwards: complete traces or exact prefixes, finalized trace = recorded trace, every progress()/callback/inspect snapshot agrees exactly with the recorded trace.",
            "Same stubs as C10. Liveness is bounded: the final wait must finish within 20000 simulated timeouts / 3e6 scheduler steps.",
            "DESIGN.md §5 C11"),
    "C12": (ENGINE_B, "exploration",
            "real Sampler under the seeded scheduler; pause-interval oracle over the recorded event history",
            "Seeded search over the point at which pause/resume land relative to every chain's loop (the user task yields many times after pause() returned so chains get every chance to overrun); per chain the draws recorded between return of pause() and the next resume() are bounded by 1 + earlier resume commands (by 1 once the chain has certainly drained all earlier commands), unstarted chains record nothing, and the final trace equals the uninterrupted run.",
            "Same stubs as C10; the bound uses only commands issued by the user.",
            "DESIGN.md §5 C12"),
    "C13": (ENGINE_B, "fault_enumeration",
            "real Sampler under the seeded scheduler with fault injection at every fault position of each base run",
            "For each sampled base run (every eighth one a run of zero draws, every eighth one of a single draw) every fault position is injected in turn (unrecoverable/recoverable density error at every evaluation of every chain, storage record/finalize/flush/inspect/new_trace/initialize errors at every call, Model::math and init_position failures, first n / all initialisation attempts failing), each under several schedules, plus batches with 2-3 simultaneous faults; a fired fatal fault must surface as Err through wait_timeout/abort, never as panic, hang or success; recoverable faults never end a chain. The real sync and async Zarr backends are driven over a store whose k-th write fails (k over the whole run or counted back from the last write): some backend call must return Err, none may panic.",
            "Base runs are sampled (seeded), positions within a base run are enumerated (strided beyond 48 evaluations per chain). abort() returning Ok after a chain error is counted, not flagged.",
            "DESIGN.md §5 C13"),
    "C14": (ENGINE_C, "exploration",
            "real storage backends driven through the storage traits with histories of real chains under fault injection, seeded hash order and seeded interleaving of chains/flush/inspect; read-back compared with a recording model",
            "Seeded search over histories (six presets, 1..4 chains, num_tune/num_draws incl. 0 and 1, natural and injected divergences, transformation updates, expanded variables of every value type and shape with NaN/inf/empty/non-ASCII values), aborted prefixes, chunk sizes, store_warmup, and hash orders (a function of the seed). HashMap, ndarray, Arrow and Zarr (sync) are finalised/inspected and read back (Zarr by a fresh zarrs reader on a store snapshot) and compared value by value, type by type, in order, warmup before sampling, with the recording model; event arrays must have exactly the number of events that occurred.",
            "CSV and the async Zarr writer are not driven yet. NaN payloads are not compared. The model is the list of values handed to record_sample.",
            "DESIGN.md §5 C14"),
    "C15": (ENGINE_C, "fault_enumeration",
            "Zarr writer over a fault/snapshot store: crash point after every flush and after every single store write (write log replayed into a fresh store), k-th store write failing",
            "Per history a flush follows recorded draws with probability up to 1 (crash point after every recorded draw), for chunk sizes 1, smaller than, equal to, larger than and not dividing the draw counts; after each flush a fresh zarrs reader on a snapshot of the store must read the acknowledged prefix of every variable and statistic of the flushed chain (all chains' earlier acknowledgements are re-checked periodically and after finalize). A second batch fails the k-th store write: the call must return Err without panic and acknowledged prefixes must still read back. Two batches (sync and async writer) take a crash point after EVERY store write (set / erase, metadata included): the store as a fresh reader would find it after that write must still hold every prefix acknowledged by the flushes that had returned before it (a process that stops in the middle of a later record_sample, flush, warmup-to-sampling switch or finalize). An engine-B batch runs the real Sampler with flush-heavy scripts under the seeded scheduler: a flush() that returned Ok must have reached every chain's storage after the draws recorded before it was invoked.",
            "Sync writer on the zarrs MemoryStore and (a fifth of the flush-point runs, a quarter of the write-fault runs) on the real zarrs FilesystemStore in a scratch directory; async writer on a delaying in-memory store (tokio itself is not under the simulator, DESIGN.md §0.3). A crash is 'the process stops between two store writes (or between two calls); what the store holds at that moment survives' - a key of the store is the unit of atomicity; torn writes inside one key and lost writes of the storage medium are outside the property's quantifier.",
            "DESIGN.md §5 C15"),
    "C18": (ENGINE_A, "exploration",
            "seeded simulation of MCLMC chains with fault injection (divergence position, nested step-size retries); every ESH update / normalisation observed at the delegating Math seam compared with the closed form; history oracles",
            "Seeded search over the three MCLMC presets x dimension 2..20 x L, subsample frequency, step size, trajectory kinds, switch fraction, dynamic step size, with recoverable-class faults at seeded evaluation indices (single and nested retries, divergences). Unit norm after every ESH update and refresh, each ESH update equals the closed form and its reported energy change, step count = max(1, round(f*L/eps)), total integration time N*eps under retries, divergent draw leaves the position unchanged and is followed by a full refresh, the integrator switch happens once at the configured draw with a fresh normalised momentum.",
            "Near-singular ESH updates (momentum numerically anti-parallel to the gradient) are skipped and counted; tolerances 1e-12 (norm), 1e-8 (closed form, condition-scaled).",
            "DESIGN.md §5 C18"),
}

NOT_APPLICABLE = {
    "C17": "pure function of its inputs (vector lengths and values): no schedule, clock, fault, crash point or history for a simulator to decide; input generation is not simulation (DESIGN.md §5)",
    "C19": "pure serde round-trip of a value: no schedule, clock, fault or history (DESIGN.md §5)",
}

PLANNED = {
    "C01": "not claimed yet: scripted-randomness refinement check (engine A + hook H3) not built",
    "C02": "not claimed yet: reference-leapfrog oracle (engine A + hook H3) not built",
    "C03": "not claimed yet: trajectory-membership oracle (engine A) not built",
    "C04": "not claimed yet: posterior-moment oracle (engine A) not built",
    "C05": "not claimed yet: fault enumeration over evaluation indices (engine A) not built",
    "C07": "not claimed yet: dual-averaging refinement oracle (engine A) not built",
    "C08": "not claimed yet: whitening oracle (engine A) not built",
    "C09": "not claimed yet: window-schedule oracle (engine A + hook H4) not built",
    "C10": "not claimed yet: engine B (sampler under seeded scheduler) not built",
    "C11": "not claimed yet: engine B not built",
    "C12": "not claimed yet: engine B not built",
    "C13": "not claimed yet: engine B not built",
    "C14": "not claimed yet: engine C (storage backends vs recording model) not built",
    "C15": "not claimed yet: engine C not built",
    "C18": "not claimed yet: MCLMC structural oracle (engine A) not built",
}

def render_findings():
    lines = ["# rendering of known_findings.jsonl (the file the checks read) in the line format of the task brief; regenerate with gen_manifest.py", ""]
    for l in open("/verif/known_findings.jsonl"):
        d = json.loads(l)
        what = " ".join(d["what"].split())
        if what.startswith("fixed: property=") or what.startswith("known: property="):
            lines.append(f"{what} [violation key {d['key']}]")
        elif d["status"] == "fixed":
            lines.append(f"fixed: property={d['property']} {d.get('commit', '?')} {what} [violation key {d['key']}]")
        else:
            lines.append(f"known: property={d['property']} {what} [violation key prefix {d['key']}]")
    open("/verif/known_findings.txt", "w").write("\n".join(lines) + "\n")


def main():
    render_findings()
    hooks_commits = subprocess.run(["git", "-C", "/repo", "log", "--format=%h %s"], capture_output=True, text=True).stdout.splitlines()
    hook_commits = [l.split()[0] for l in hooks_commits if l.split(" ", 1)[1].startswith("verif hook")]
    checks = []
    for pid in sorted(CLAIMED):
        eng, cat, tech, text, note, ref = CLAIMED[pid]
        checks.append({
            "property_id": pid,
            "quick_cmd": f"./check {pid} --tier quick",
            "thorough_cmd": f"./check {pid} --tier thorough",
            "evidence_file": f"/verif/evidence/{pid}.json",
            "replay_cmd_template": "./check replay {path}",
            "engine": eng,
            "level_claimed": {"category": cat, "text": text, "design_ref": ref},
            "level_note": note,
            "technique": "deterministic simulation with fault injection: " + tech,
        })
    na = [{"property_id": k, "reason": v} for k, v in sorted({**NOT_APPLICABLE, **{k: v for k, v in PLANNED.items() if k not in CLAIMED}}.items())]
    manifest = {
        "version": 1,
        "setup_cmd": "./check setup",
        "hooks": {
            "guard": "--cfg nuts_rs_verif",
            "enable": "RUSTFLAGS='--cfg nuts_rs_verif' via /verif/sim/.cargo/config.toml; sources compiled from /repo/src through the shadow manifest /verif/sim/shadow/Cargo.toml (lib.path=/repo/src/lib.rs), which also adds the runtime crate nuts_rs_verif_rt",
            "baseline_off_cmd": "cd /repo && cargo test --workspace --no-fail-fast --offline",
            "source_commits": hook_commits,
            "add_only": True,
        },
        "engines": [
            {"name": ENGINE_A, "path": "/verif/sim/harness", "serves_properties": sorted(p for p, v in CLAIMED.items() if v[0] == ENGINE_A),
             "kind_free_text": "one real chain (any preset) driven through the public API in a seeded simulation: stub densities with fault injection by evaluation index, seeded chain RNG, history oracles and reference models"},
            {"name": ENGINE_B, "path": "/verif/sim/harness + /verif/sim/rt", "serves_properties": sorted(p for p, v in CLAIMED.items() if v[0] == ENGINE_B),
             "kind_free_text": "the real parallel Sampler (controller + chain workers) as shuttle tasks under the harness's own seeded scheduler; simulated clock/timeouts; rayon stand-in; fault-injecting model and recording storage that tees into the real HashMap / ndarray backends; decision-list schedule minimisation; also serves the sampler part of C15 (flush forwarding) and C13's real-Zarr-backend batches run next to it"},
            {"name": ENGINE_C, "path": "/verif/sim/harness", "serves_properties": sorted(p for p, v in CLAIMED.items() if v[0] == ENGINE_C),
             "kind_free_text": "real storage backends driven through the storage traits against a recording model; fault/crash-snapshot store for Zarr; seeded hash order"},
        ],
        "checks": checks,
        "not_applicable": na,
        "notes": "All checks are one binary (/verif/sim/harness, `nutsim`); `./check <id>` rebuilds incrementally from /repo's working tree. VERIF_SEED / --seed select the batch (default fixed). Exit 2 = harness error. Known findings: /verif/known_findings.jsonl. Helper scripts (not registered commands): multiseed.sh (false-alarm sweep over VERIF_SEED values), determinism.sh, seedtest.sh / confirm_seed.sh (seeded changes under /verif/seeded), refactortest.sh (behaviour-preserving refactorings under /verif/refactors), thorough_all.sh (thorough tier of every check, evidence copied to /verif/evidence_thorough).",
    }
    with open(os.path.join(ROOT, "MANIFEST.json"), "w") as f:
        json.dump(manifest, f, indent=1)
    print("MANIFEST.json written:", len(checks), "checks,", len(na), "not applicable / not claimed")

if __name__ == "__main__":
    main()
